(** C12 — Relayed protocol messages stay byte-identical; rewritten ones stay well-formed.
    Only statements, closed by [exact], and their assumptions.  The models are
    Model/PgWire.v, Model/MysqlWire.v, Model/Bytea.v (replayed against the real code on every run). *)
From Acra Require Import Lib.Bytes Lib.Outcome Gen.WireConsts Model.MysqlWire Model.PgWire Model.Bytea
  Proofs.MysqlWire Proofs.PgWire Proofs.PgWireBind Proofs.Bytea.
Local Open Scope N_scope.

(** ===== PostgreSQL: relay identity ===== *)

(** whatever ReadPacket/ReadClientPacket accepts (any type byte but 0, any payload, anything after it),
    Marshal writes back the very same bytes *)
Theorem C12_pg_relay_identity :
  forall (s : bytes) (p : packet) (rest : bytes),
  read_msg s = Ok (p, rest) -> p_type p <> PG_WITHOUT_MESSAGE_TYPE -> marshal p ++ rest = s.
Proof. exact pg_relay_identity. Qed.
Print Assumptions C12_pg_relay_identity.

(** every well-framed message is accepted and split at the right place *)
Theorem C12_pg_read_frame :
  forall (tag : byte) (payload rest : bytes),
  N.of_nat (length payload) + 4 < 2^32 ->
  read_msg (frame tag payload ++ rest) = Ok (mk_packet tag (packet_length_buf (N.of_nat (length payload))) payload, rest).
Proof. exact pg_read_frame. Qed.
Print Assumptions C12_pg_read_frame.

(** any sequence of well-framed messages goes through the read/send loop unchanged and in order *)
Theorem C12_pg_relay_stream :
  forall (ms : list (byte * bytes)) (fuel : nat),
  Forall wf_msg ms -> (length ms < fuel)%nat -> relay fuel (frames ms) = frames ms.
Proof. exact pg_relay_stream. Qed.
Print Assumptions C12_pg_relay_stream.
Example C12_pg_relay_stream_nonvacuous :
  Forall wf_msg [(x51, hb 0x173656c00); (x58, []); (x44, hb 0x10001ffffffff)] /\
  relay 4 (frames [(x51, hb 0x173656c00); (x58, []); (x44, hb 0x10001ffffffff)])
  = hb 0x1510000000873656c005800000004440000000a0001ffffffff.
Proof. split; [repeat constructor; vm_compute; try reflexivity; discriminate| vm_compute; reflexivity]. Qed.

(** start-up messages (StartupMessage, SSLRequest, CancelRequest, GSSENCRequest) *)
Theorem C12_pg_startup_identity :
  forall (s : bytes) (p : packet) (rest : bytes), read_startup s = Ok (p, rest) -> marshal p ++ rest = s.
Proof. exact pg_startup_identity. Qed.
Print Assumptions C12_pg_startup_identity.

(** ===== PostgreSQL: DataRow rewriting ===== *)

(** For every row (NULLs, empty values, any lengths), every per-column transformation (shrink, grow,
    keep) and every valid result-format list: read + parseColumns + SetData on each non-NULL column +
    updateDataFromColumns + Marshal produces EXACTLY the protocol encoding of the intended row:
    message length and column lengths equal the actual ones, column count and NULL markers preserved,
    values with [tr i d = d] byte-identical. *)
Theorem C12_pg_datarow_rewrite_wf :
  forall (fmts : list N) (tr : nat -> bytes -> bytes) (cols : list (option bytes)) (rest : bytes),
  N.of_nat (length cols) < 2^16 -> Forall wf_col cols -> Forall wf_col (map_tr tr 0 cols) ->
  formats_ok fmts 0 (length cols) ->
  N.of_nat (length (datarow_payload cols)) + 4 < 2^32 ->
  exists p',
    (do (p, _) <- read_msg (frame PG_DATAROW_TYPE (datarow_payload cols) ++ rest); process_datarow fmts tr p) = Ok p'
    /\ marshal p' = frame PG_DATAROW_TYPE (datarow_payload (map_tr tr 0 cols)).
Proof. exact pg_datarow_rewrite_wf. Qed.
Print Assumptions C12_pg_datarow_rewrite_wf.
Example C12_pg_datarow_rewrite_nonvacuous :
  let cols := [Some (hb 0x1616263); None; Some []; Some (hb 0x1ff)] in
  let tr := fun (i : nat) (d : bytes) => if Nat.eqb i 0 then d ++ d else if Nat.eqb i 3 then [] else d in
  N.of_nat (length cols) < 2^16 /\ Forall wf_col cols /\ Forall wf_col (map_tr tr 0 cols) /\ formats_ok [0; 1; 0; 1] 0 (length cols)
  /\ (do (p, _) <- read_msg (frame PG_DATAROW_TYPE (datarow_payload cols)); process_datarow [0; 1; 0; 1] tr p)
     = Ok (mk_packet PG_DATAROW_TYPE (hb 0x10000001c) (hb 0x1000400000006616263616263ffffffff0000000000000000)).
Proof.
  cbv zeta. split; [vm_compute; reflexivity|]. split; [repeat constructor; vm_compute; reflexivity|].
  split; [repeat constructor; vm_compute; reflexivity|]. split; [|vm_compute; reflexivity].
  intros j Hj. cbn [length] in Hj.
  destruct j as [|[|[|[|j]]]]; try (exfalso; Lia.lia); vm_compute; eauto.
Qed.

(** on ARBITRARY payload bytes: what parseColumns accepts re-frames to the bytes it consumed, with
    consistent length buffers (declared = actual, NULL = -1 with no data) *)
Theorem C12_pg_datarow_parse_marshal :
  forall (fmts : list N) (desc : bytes) (count : N) (cs : list column),
  parse_columns fmts desc = Ok (count, cs) -> count <> 0 ->
  exists trailing, desc = be_enc 2 count ++ cols_bytes cs ++ trailing /\ N.of_nat (length cs) = count
                   /\ Forall col_consistent cs.
Proof. exact pg_datarow_parse_marshal. Qed.
Print Assumptions C12_pg_datarow_parse_marshal.

(** simple Query: the replaced query is framed with the right length and terminator; other messages untouched *)
Theorem C12_pg_replace_query_wf :
  forall (p : packet) (q : bytes),
  p_type p = PG_QUERY_TYPE -> marshal (replace_query p q) = frame PG_QUERY_TYPE (q ++ [x00]).
Proof. exact pg_replace_query_wf. Qed.
Print Assumptions C12_pg_replace_query_wf.
Theorem C12_pg_replace_query_other :
  forall (p : packet) (q : bytes), p_type p <> PG_QUERY_TYPE -> replace_query p q = p.
Proof. exact pg_replace_query_other. Qed.
Print Assumptions C12_pg_replace_query_other.

(** ===== MySQL: length-encoded integers and strings ===== *)

(** all n < 2^64 (case analysis on the 251 / 2^16 / 2^24 boundaries): decode (encode n ++ rest) = n,
    not NULL, consuming exactly the encoding *)
Theorem C12_mysql_lenenc_roundtrip :
  forall (n : N) (rest : bytes), n < 2^64 ->
  lenenc_int (put_lenenc_int n ++ rest) = Ok (n, false, length (put_lenenc_int n)).
Proof. exact mysql_lenenc_roundtrip. Qed.
Print Assumptions C12_mysql_lenenc_roundtrip.

Theorem C12_mysql_put_lenenc_int_length :
  forall n : N, n < 2^64 ->
  length (put_lenenc_int n) = if n <=? 250 then 1%nat else if n <=? 0xffff then 3%nat else if n <=? 0xffffff then 4%nat else 9%nat.
Proof. exact mysql_put_lenenc_int_length. Qed.
Print Assumptions C12_mysql_put_lenenc_int_length.

Theorem C12_mysql_lenenc_string_roundtrip :
  forall (d rest : bytes), N.of_nat (length d) < 2^63 ->
  lenenc_string (put_lenenc_string (Some d) ++ rest) = Ok (Some d, length (put_lenenc_string (Some d))).
Proof. exact mysql_lenenc_string_roundtrip. Qed.
Print Assumptions C12_mysql_lenenc_string_roundtrip.

Theorem C12_mysql_lenenc_null_roundtrip :
  forall rest : bytes, lenenc_string (put_lenenc_string None ++ rest) = Ok (None, 1%nat).
Proof. exact mysql_lenenc_null_roundtrip. Qed.
Print Assumptions C12_mysql_lenenc_null_roundtrip.

(** a text row whose non-NULL fields were rewritten to values of any length still splits into exactly
    the intended fields: count and NULL markers preserved *)
Theorem C12_mysql_text_row_rewrite_wf :
  forall (tr : nat -> bytes -> bytes) (vs : list (option bytes)) (rest : bytes),
  Forall small_field (rewrite_fields tr vs) ->
  text_row (length vs) (put_text_row (rewrite_fields tr vs) ++ rest) = Ok (rewrite_fields tr vs, rest)
  /\ length (rewrite_fields tr vs) = length vs
  /\ (forall i, nth_error vs i = Some None <-> nth_error (rewrite_fields tr vs) i = Some None).
Proof. exact mysql_text_row_rewrite_wf. Qed.
Print Assumptions C12_mysql_text_row_rewrite_wf.

(** the code as found (before the fix) panicked on the two inputs reproduced on the real code *)
Theorem C12_mysql_lenenc_string_old_refuted :
  lenenc_string_old (hb 0x1feffffffffffffffff) = Panic /\ lenenc_string_old (hb 0x1fe0000000000000080) = Panic.
Proof. exact lenenc_string_old_refuted. Qed.
Print Assumptions C12_mysql_lenenc_string_old_refuted.

(** ===== bytea text codecs ===== *)
Theorem C12_bytea_octal_roundtrip : forall d : bytes, decode_octal (encode_octal d) = Ok d.
Proof. exact bytea_octal_roundtrip. Qed.
Print Assumptions C12_bytea_octal_roundtrip.
Theorem C12_bytea_hex_roundtrip : forall d : bytes, decode_escaped (pg_encode_hex d) = Ok d.
Proof. exact bytea_hex_roundtrip. Qed.
Print Assumptions C12_bytea_hex_roundtrip.
Theorem C12_bytea_escaped_octal_roundtrip : forall d : bytes, decode_escaped (encode_octal d) = Ok d.
Proof. exact bytea_escaped_octal_roundtrip. Qed.
Print Assumptions C12_bytea_escaped_octal_roundtrip.

(** ===== decoder totality (separate lemmas wire_<decoder>_total, reused by C14) ===== *)
Theorem C12_wire_pg_read_msg_total : forall s : bytes, read_msg s <> Panic.
Proof. exact wire_pg_read_msg_total. Qed.
Print Assumptions C12_wire_pg_read_msg_total.
Theorem C12_wire_pg_read_startup_total : forall s : bytes, read_startup s <> Panic.
Proof. exact wire_pg_read_startup_total. Qed.
Print Assumptions C12_wire_pg_read_startup_total.
Theorem C12_wire_pg_parse_columns_total : forall (fmts : list N) (desc : bytes), parse_columns fmts desc <> Panic.
Proof. exact wire_pg_parse_columns_total. Qed.
Print Assumptions C12_wire_pg_parse_columns_total.
Theorem C12_wire_pg_parse_columns_bounded :
  forall (fmts : list N) (desc : bytes) (count : N) (cs : list column),
  parse_columns fmts desc = Ok (count, cs) -> 2 + 4 * count <= N.of_nat (length desc).
Proof. exact wire_pg_parse_columns_bounded. Qed.
Print Assumptions C12_wire_pg_parse_columns_bounded.
Theorem C12_wire_pg_process_datarow_total :
  forall (fmts : list N) (tr : nat -> bytes -> bytes) (p : packet), process_datarow fmts tr p <> Panic.
Proof. exact wire_pg_process_datarow_total. Qed.
Print Assumptions C12_wire_pg_process_datarow_total.
Theorem C12_wire_lenenc_int_total : forall data : bytes, lenenc_int data <> Panic.
Proof. exact wire_lenenc_int_total. Qed.
Print Assumptions C12_wire_lenenc_int_total.
Theorem C12_wire_lenenc_int_bounded :
  forall (data : bytes) (num : N) (isnull : bool) (n : nat),
  lenenc_int data = Ok (num, isnull, n) -> (1 <= n <= length data)%nat /\ num < 2^64.
Proof. exact wire_lenenc_int_bounded. Qed.
Print Assumptions C12_wire_lenenc_int_bounded.
(** [length data < 2^63] is a fact about Go slices (lengths are non-negative ints) *)
Theorem C12_wire_lenenc_string_total :
  forall data : bytes, N.of_nat (length data) < 2^63 -> lenenc_string data <> Panic.
Proof. exact wire_lenenc_string_total. Qed.
Print Assumptions C12_wire_lenenc_string_total.
Theorem C12_wire_lenenc_string_bounded :
  forall (data : bytes) (v : option bytes) (n : nat),
  N.of_nat (length data) < 2^63 -> lenenc_string data = Ok (v, n) -> (1 <= n <= length data)%nat.
Proof. exact wire_lenenc_string_bounded. Qed.
Print Assumptions C12_wire_lenenc_string_bounded.
Theorem C12_wire_skip_lenenc_string_total : forall data : bytes, skip_lenenc_string data <> Panic.
Proof. exact wire_skip_lenenc_string_total. Qed.
Print Assumptions C12_wire_skip_lenenc_string_total.
Theorem C12_wire_text_row_total :
  forall (k : nat) (data : bytes), N.of_nat (length data) < 2^63 -> text_row k data <> Panic.
Proof. exact wire_text_row_total. Qed.
Print Assumptions C12_wire_text_row_total.
Theorem C12_wire_decode_octal_total : forall d : bytes, decode_octal d <> Panic.
Proof. exact wire_decode_octal_total. Qed.
Print Assumptions C12_wire_decode_octal_total.
Theorem C12_wire_decode_escaped_total : forall d : bytes, decode_escaped d <> Panic.
Proof. exact wire_decode_escaped_total. Qed.
Print Assumptions C12_wire_decode_escaped_total.

(** ===== PostgreSQL: Bind / Parse / Execute (checked models of decryptor/postgresql/utils.go) ===== *)

(** marshal after parse is the identity on what was consumed: every Bind message NewBindPacket accepts is the
    MarshalInto image of the parsed packet followed by the bytes it ignored (ARBITRARY input bytes) *)
Theorem C12_pg_bind_roundtrip : forall (data : bytes) b, new_bind_packet data = Ok b ->
  exists m rest, marshal_bind b = Ok m /\ data = m ++ rest.
Proof. exact pg_bind_roundtrip. Qed.
Print Assumptions C12_pg_bind_roundtrip.

(** and what it returns is a well-formed value (names without a 0 byte, 16-bit codes, value lengths below the
    NULL marker) *)
Theorem C12_pg_bind_parse_wf : forall (data : bytes) b, new_bind_packet data = Ok b -> wf_bind b.
Proof. exact pg_bind_parse_wf. Qed.
Print Assumptions C12_pg_bind_parse_wf.

(** parse after marshal is the identity on well-formed values, whatever follows the message *)
Theorem C12_pg_bind_marshal_parse : forall b m (rest : bytes),
  wf_bind b -> marshal_bind b = Ok m -> new_bind_packet (m ++ rest) = Ok b.
Proof. exact pg_bind_marshal_parse. Qed.
Print Assumptions C12_pg_bind_marshal_parse.

(** premises satisfiable: NULL, empty and non-empty (with a 0 byte inside) parameters, trailing bytes *)
Example C12_pg_bind_roundtrip_nonvacuous :
  wf_bind example_bind /\ marshal_bind example_bind = Ok example_bind_bytes /\
  new_bind_packet (example_bind_bytes ++ [x01; x02]) = Ok example_bind.
Proof. exact pg_bind_wf_nonvacuous. Qed.

Theorem C12_pg_parse_roundtrip : forall (data : bytes) pp, new_parse_packet data = Ok pp ->
  exists rest : bytes, data = marshal_parse pp ++ rest.
Proof. exact pg_parse_roundtrip. Qed.
Print Assumptions C12_pg_parse_roundtrip.

Theorem C12_pg_execute_roundtrip : forall (data : bytes) portal n, new_execute_packet data = Ok (portal, n) ->
  ~ In x00 portal /\ n < 4294967296 /\ exists rest : bytes, data = portal ++ [x00] ++ be_enc 4 n ++ rest.
Proof. exact pg_execute_roundtrip. Qed.
Print Assumptions C12_pg_execute_roundtrip.

(** Round s32 - a Parse message whose query is rewritten (ReplaceQuery, Parse branch): for EVERY accepted Parse
    payload and EVERY new query without a 0 byte (shorter, equal or longer - no bound on either), the rewritten
    message keeps its type, declares its actual length, consists of the old name, the new query with its terminator,
    the old parameter count and the old parameter type OIDs, byte for byte, and NewParsePacket reads exactly
    those fields back.  (The query must not contain a 0 byte: the protocol's strings are 0-terminated.) *)
Theorem C12_pg_parse_replace_query_wf : forall (p : packet) (pp : parse) (q : bytes),
  new_parse_packet (p_desc p) = Ok pp -> ~ In x00 q ->
  exists p' : packet, replace_parse_query p q = Ok p' /\
    p_type p' = p_type p /\
    p_lenbuf p' = packet_length_buf (N.of_nat (length (p_desc p'))) /\
    p_desc p' = pp_name pp ++ (q ++ [x00]) ++ pp_num pp ++ concat (pp_params pp) /\
    new_parse_packet (p_desc p') = Ok (mk_parse (pp_name pp) (q ++ [x00]) (pp_num pp) (pp_params pp)).
Proof. exact pg_parse_replace_query_wf. Qed.
Print Assumptions C12_pg_parse_replace_query_wf.

(** premises satisfiable: statement "s1", two parameter OIDs, a query that grows by 10 bytes *)
Example C12_pg_parse_replace_query_wf_nonvacuous :
  let p := mk_packet PG_PARSE_TYPE (hb 0x10000001b) (hb 0x173310053454c4543542024310000020000001700000011) in
  exists pp, new_parse_packet (p_desc p) = Ok pp /\ pp_params pp <> [] /\
    replace_parse_query p (hb 0x173656c656374202431202d2d206c6f6e676572)
    = Ok (mk_packet PG_PARSE_TYPE (hb 0x100000025) (hb 0x173310073656c656374202431202d2d206c6f6e6765720000020000001700000011)).
Proof. exact pg_parse_replace_query_wf_nonvacuous. Qed.
