(** C06 (extension x06list) — rotation keeps old DATA readable; destruction makes exactly the data of
    the chosen key unreadable; what the key listings show.

    The keystore models of C06 composed with the envelope model of C01 (Model/KeyDataExt.v): a
    history interleaves keystore operations with protect / reveal / search operations that take their
    keys from the keystore at that moment.  [C] ranges over every crypto instance satisfying
    [Correct]; "unrevealable" and "revealed" are reductions with an explicit witness (another key
    version that opens the container: AEAD / key-wrap forgery or equal key material).
    Only statements, closed by [exact]. *)
From Coq Require Import List NArith ZArith Bool.
From Acra Require Import Lib.Bytes Lib.Outcome Lib.Sha256 Crypto.Interface Crypto.Stub Gen.Consts Gen.KeyStates
  Model.KeySpec Model.KeystoreV1 Model.KeystoreV2 Model.Envelope Model.KeyDataExt Model.RunKeyData
  Proofs.Envelope Proofs.EnvelopeHandlers Proofs.RevealReduction Proofs.KeySpec Proofs.KeystoreV2
  Proofs.RotationData.
Import ListNotations.
Local Open Scope N_scope.
Arguments d_ks {K} _.
Arguments d_vals {K} _.

(** ** the specification, all histories: a key version offered now is still offered after ANY later
    sequence of generations / rotations (of any slot and kind), reads, re-openings and destructions,
    unless one of those operations destroys exactly that version ([killed_in]: destroy-current while
    it is current, or destroy-rotated by the index under which the listing shows it) *)
Theorem C06_data_key_offered_unless_destroyed :
  forall (ops : list kop) (st : sstate) (s : slot) (k : ord),
  In k (offered st s) -> ~ killed_in st ops s k -> In k (offered (spec_state_after false st ops) s).
Proof. exact offered_unless_killed. Qed.
Print Assumptions C06_data_key_offered_unless_destroyed.

(** a version that is gone does not come back by any later history that does not generate the same
    label again *)
Theorem C06_data_destroyed_key_stays_gone :
  forall (ops : list kop) (st : sstate) (s : slot) (k : ord),
  ~ In k (offered st s) -> ~ In k (gen_labels ops) -> ~ In k (offered (spec_state_after false st ops) s).
Proof. exact gone_stays_gone. Qed.
Print Assumptions C06_data_destroyed_key_stays_gone.

(** the destroying step: exactly that version of exactly that slot *)
Theorem C06_data_destroy_removes_exactly_that :
  forall (hide : bool) (st : sstate) (o : kop) (s : slot) (k : ord),
  kills st o s k -> NoDup (offered st s) ->
  let st' := fst (spec_step hide st o) in
  ~ In k (offered st' s)
  /\ (forall k', k' <> k -> In k' (offered st s) -> In k' (offered st' s))
  /\ (forall s', s' <> s -> st' s' = st s').
Proof. exact kill_removes_exactly. Qed.
Print Assumptions C06_data_destroy_removes_exactly_that.

(** ** envelope level, ANY list of keys offered at reveal time (no keystore involved): the value is
    revealed if the protecting private key is in the list, unless an explicit other key opens the
    container to something else; if the reveal does not fail, an explicit key of the list opens it *)
Theorem C06_data_acrastruct_reveal_reduction :
  forall (C : crypto), Correct C ->
  forall (ks : keyset) (tape : list bytes) (x sb : bytes),
  looks_protected ENVELOPE_ID_ACRASTRUCT x = false -> x <> [] -> (N.of_nat (length x) < MAXMSG)%N ->
  good_as_tape tape -> length sb = SEED_LEN -> ks_pub ks = Some (pub_of C sb) ->
  exists v inner, encrypt_with_handler C ENVELOPE_ID_ACRASTRUCT ks tape x = Ok v
    /\ v = sc_layout inner ENVELOPE_ID_ACRASTRUCT
    /\ as_decrypt C inner (priv_of C sb) [] = Ok x
    /\ forall privs,
       (In (priv_of C sb) privs ->
          decrypt_with_handler C ENVELOPE_ID_ACRASTRUCT (rk_privs privs) v = Ok x
          \/ exists p y, In p privs /\ as_decrypt C inner p [] = Ok y /\ y <> x)
       /\ ((exists e, decrypt_with_handler C ENVELOPE_ID_ACRASTRUCT (rk_privs privs) v = Err e)
           \/ exists p y, In p privs /\ as_decrypt C inner p [] = Ok y
                          /\ decrypt_with_handler C ENVELOPE_ID_ACRASTRUCT (rk_privs privs) v = Ok y).
Proof. exact as_protect_reveal. Qed.
Print Assumptions C06_data_acrastruct_reveal_reduction.

Theorem C06_data_acrablock_reveal_reduction :
  forall (C : crypto), Correct C ->
  forall (ks : keyset) (tape : list bytes) (x key : bytes) (rest : list bytes),
  looks_protected ENVELOPE_ID_ACRABLOCK x = false -> x <> [] -> (N.of_nat (length x) < MAXMSG)%N ->
  good_ab_tape tape -> key <> [] -> ks_syms ks = key :: rest ->
  exists v ek ed, encrypt_with_handler C ENVELOPE_ID_ACRABLOCK ks tape x = Ok v
    /\ v = sc_layout (ab_layout key [] ek ed) ENVELOPE_ID_ACRABLOCK
    /\ forall keys,
       (In key keys ->
          decrypt_with_handler C ENVELOPE_ID_ACRABLOCK (rk_syms keys) v = Ok x
          \/ exists k' dk, In k' keys /\ k' <> key /\ bytes_eqb (ab_key_id k' []) (ab_key_id key []) = true
                           /\ cell_decrypt C k' [] ek = Some dk)
       /\ ((exists e, decrypt_with_handler C ENVELOPE_ID_ACRABLOCK (rk_syms keys) v = Err e)
           \/ exists k' dk, In k' keys /\ bytes_eqb (ab_key_id k' []) (ab_key_id key []) = true
                            /\ cell_decrypt C k' [] ek = Some dk).
Proof. exact ab_protect_reveal. Qed.
Print Assumptions C06_data_acrablock_reveal_reduction.

(** ** keystore v2 composed with the envelope layer — EVERY history [pre ++ protect :: post] of
    keystore operations, listings, protects, reveals and searches over all key kinds:
    the AcraStruct created through the registry handler with the public key the keystore hands out
    after [pre] (version [k], the slot's current one) is, after ANY [post], revealed by the decrypt
    handler fed from GetServerDecryptionPrivateKeys iff version [k] is still offered by the
    specification state ([C06_data_key_offered_unless_destroyed] / [.._destroyed_key_stays_gone] say
    when that is) — up to an explicit other version [k'] that opens the container *)
Theorem C06_data_v2_acrastruct_revealed_iff_key_survives :
  forall (C : crypto), Correct C ->
  forall (km : ord -> bytes * bytes) (pre post : list dop) (s : slot) (tape : list bytes) (x sd : bytes) (k : ord),
  fst s = KStoragePair ->
  looks_protected ENVELOPE_ID_ACRASTRUCT x = false -> x <> [] -> (N.of_nat (length x) < MAXMSG)%N ->
  good_as_tape tape -> length sd = SEED_LEN -> km k = keypair C sd ->
  s_cur (spec_state_after false s_init (kops_of pre) s) = Some k ->
  let st1 := d_state_after C km v2_sys d0 pre in
  let ops := pre ++ DProtect s tape x :: post in
  let L := offered (spec_state_after false s_init (kops_of ops)) s in
  exists v inner,
    snd (d_step C km v2_sys st1 (DProtect s tape x)) = DB (Ok v) /\ v = sc_layout inner ENVELOPE_ID_ACRASTRUCT /\
    let out := snd (d_step C km v2_sys (d_state_after C km v2_sys d0 ops) (DReveal s (length (d_vals st1)))) in
    (In k L -> out = DB (Ok x)
               \/ exists k' y, In k' L /\ as_decrypt C inner (sec km k') [] = Ok y /\ y <> x)
    /\ (~ In k L -> (exists e, out = DB (Err e))
                    \/ exists k' y, In k' L /\ k' <> k /\ as_decrypt C inner (sec km k') [] = Ok y).
Proof. exact v2_data_pair. Qed.
Print Assumptions C06_data_v2_acrastruct_revealed_iff_key_survives.

(** the same for AcraBlocks under symmetric storage keys (GetClientIDSymmetricKey at protect time,
    GetClientIDSymmetricKeys at reveal time); the witness is a version with the same 2-byte key id
    whose key opens the wrapped data key *)
Theorem C06_data_v2_acrablock_revealed_iff_key_survives :
  forall (C : crypto), Correct C ->
  forall (km : ord -> bytes * bytes) (pre post : list dop) (s : slot) (tape : list bytes) (x : bytes) (k : ord),
  fst s = KStorageSym ->
  looks_protected ENVELOPE_ID_ACRABLOCK x = false -> x <> [] -> (N.of_nat (length x) < MAXMSG)%N ->
  good_ab_tape tape -> sec km k <> [] ->
  s_cur (spec_state_after false s_init (kops_of pre) s) = Some k ->
  let st1 := d_state_after C km v2_sys d0 pre in
  let ops := pre ++ DProtect s tape x :: post in
  let L := offered (spec_state_after false s_init (kops_of ops)) s in
  exists v ek ed,
    snd (d_step C km v2_sys st1 (DProtect s tape x)) = DB (Ok v)
    /\ v = sc_layout (ab_layout (sec km k) [] ek ed) ENVELOPE_ID_ACRABLOCK /\
    let out := snd (d_step C km v2_sys (d_state_after C km v2_sys d0 ops) (DReveal s (length (d_vals st1)))) in
    (In k L -> out = DB (Ok x)
               \/ exists k' dk, In k' L /\ sec km k' <> sec km k
                   /\ bytes_eqb (ab_key_id (sec km k') []) (ab_key_id (sec km k) []) = true
                   /\ cell_decrypt C (sec km k') [] ek = Some dk)
    /\ (~ In k L -> (exists e, out = DB (Err e))
                    \/ exists k' dk, In k' L /\ k' <> k
                   /\ bytes_eqb (ab_key_id (sec km k') []) (ab_key_id (sec km k) []) = true
                   /\ cell_decrypt C (sec km k') [] ek = Some dk).
Proof. exact v2_data_sym. Qed.
Print Assumptions C06_data_v2_acrablock_revealed_iff_key_survives.

(** blind index (searchable encryption): what the code does with rotated HMAC keys — NOTHING.  The
    index is written with the HMAC key current then and compared with the HMAC key current now
    (hmac/hash.go IsEqual, hmac/decryptor/*/hashQuery.go: GetHMACSecretKey; no keystore has an
    "all HMAC keys" getter).  After ANY history: found iff the current HMAC key gives the same HMAC
    for the searched data as the writing key gave for the written data; with no current key: not
    found.  So a rotation of the HMAC key loses the old rows for search unless the two keys collide. *)
Theorem C06_data_v2_blind_index_uses_current_hmac_key_only :
  forall (C : crypto) (km : ord -> bytes * bytes) (pre post : list dop) (s : slot) (tape : list bytes)
         (x x' : bytes) (k : ord),
  fst s = KHmac ->
  s_cur (spec_state_after false s_init (kops_of pre) s) = Some k ->
  let st1 := d_state_after C km v2_sys d0 pre in
  let ops := pre ++ DProtect s tape x :: post in
  let now := s_cur (spec_state_after false s_init (kops_of ops) s) in
  snd (d_step C km v2_sys st1 (DProtect s tape x)) = DB (Ok (generate_hmac (sec km k) x)) /\
  let out := snd (d_step C km v2_sys (d_state_after C km v2_sys d0 ops) (DSearch s (length (d_vals st1)) x')) in
  match now with
  | None => out = DB (Ok [x00])
  | Some k' => (hmac_sha256 (sec km k') x' = hmac_sha256 (sec km k) x -> out = DB (Ok [x01]))
               /\ (hmac_sha256 (sec km k') x' <> hmac_sha256 (sec km k) x -> out = DB (Ok [x00]))
  end.
Proof. exact v2_data_hmac. Qed.
Print Assumptions C06_data_v2_blind_index_uses_current_hmac_key_only.

(** ** listings of keystore v2 = listing of the specification (index 1 = current key; rotated keys
    2,3,… oldest first; a destroyed key is not listed) in every state related to a specification
    state ([R] holds along every history: Proofs/KeystoreV2.v) *)
Theorem C06_data_v2_list_rotated_is_spec :
  forall (st : v2state) (sp : sstate) (s : slot), R st sp -> v2_list_rot st s = Ok (spec_list_rot (sp s)).
Proof. exact v2_list_rot_is_spec. Qed.
Print Assumptions C06_data_v2_list_rotated_is_spec.

Theorem C06_data_v2_list_keys_is_spec_partial :
  forall (st : v2state) (sp : sstate) (s : slot) (l : list N), R st sp -> read_creates (fst s) = false ->
  v2_list_cur st s = Ok l -> l = spec_list_cur (sp s).
Proof. exact v2_list_cur_is_spec_partial. Qed.
Print Assumptions C06_data_v2_list_keys_is_spec_partial.

(** ** non-vacuity: concrete histories on the stand-in crypto instance *)
Definition c06d_sd1 : bytes := repeat x01 32.
Definition c06d_sd2 : bytes := repeat x02 32.
Definition c06d_km (k : ord) : bytes * bytes := if k =? 1 then keypair Stub c06d_sd1 else keypair Stub c06d_sd2.
Definition c06d_tape : list bytes := [repeat x03 32; repeat x04 32; repeat x05 12; repeat x06 12].
Definition c06d_s : slot := (KStoragePair, 1).

(** protect under version 1, rotate, reveal (old data readable), destroy the rotated version by its
    listed index 2, reveal again (unrevealable), listings before / after *)
Example c06_data_ex_pair_v2 :
  let ops := [DK (Gen c06d_s 1 0 0); DProtect c06d_s c06d_tape [x41; x42]; DK (Gen c06d_s 2 0 0);
              DListRot c06d_s; DReveal c06d_s 0; DK (DestroyRot c06d_s 2%Z); DReveal c06d_s 0;
              DListCur c06d_s; DListRot c06d_s; DK (DestroyCur c06d_s); DListCur c06d_s] in
  match d_run Stub c06d_km v2_sys (d_init v2_sys v2_init) ops with
  | [DN (Ok []); DB (Ok _); DN (Ok []); DN (Ok [0; 2; 2; 0]); DB (Ok [x41; x42]); DN (Ok []); DB (Err _);
     DN (Ok [0; 1; 1; 0]); DN (Ok []); DN (Ok []); DN (Ok [])] => True
  | _ => False
  end.
Proof. vm_compute. exact I. Qed.

(** the premises of the v2 AcraStruct theorem hold on this history (k = 1, pre = [Gen]) *)
Example c06_data_ex_premises :
  looks_protected ENVELOPE_ID_ACRASTRUCT [x41; x42] = false /\ good_as_tape c06d_tape
  /\ length c06d_sd1 = SEED_LEN /\ c06d_km 1 = keypair Stub c06d_sd1
  /\ s_cur (spec_state_after false s_init (kops_of [DK (Gen c06d_s 1 0 0)]) c06d_s) = Some 1.
Proof.
  split; [vm_compute; reflexivity|]. split.
  - exists (repeat x03 32), (repeat x04 32), (repeat x05 12), (repeat x06 12), []. repeat split.
  - repeat split.
Qed.

(** keystore v1 (no cache): same history; the rotated rows carry the time stamps of the file names *)
Example c06_data_ex_pair_v1 :
  let ops := [DK (Gen c06d_s 1 10 11); DProtect c06d_s c06d_tape [x41; x42]; DK (Gen c06d_s 2 20 21);
              DListRot c06d_s; DReveal c06d_s 0; DK (DestroyRot c06d_s 2%Z); DReveal c06d_s 0;
              DListCur c06d_s; DListRot c06d_s] in
  match d_run Stub c06d_km (v1_sys NoCache) (d_init (v1_sys NoCache) v1_init) ops with
  | [DN (Ok []); DB (Ok _); DN (Ok []); DN (Ok [0; 2; 2; 20; 1; 2; 2; 21]); DB (Ok [x41; x42]); DN (Ok []); DB (Err _);
     DN (Ok [0; 1; 1; 0; 1; 1; 1; 0]); DN (Ok [])] => True
  | _ => False
  end.
Proof. vm_compute. exact I. Qed.

(** the specification theorems are not vacuous: version 1 survives two rotations and the destruction
    of version 2, and is gone after the destruction of index 2 *)
Example c06_data_ex_spec :
  let s := (KStorageSym, 1) in
  let st := spec_state_after false s_init [Gen s 1 0 0] in
  In 1 (offered st s)
  /\ ~ killed_in st [Gen s 2 0 0; Gen s 3 0 0; DestroyRot s 3%Z] s 1
  /\ offered (spec_state_after false st [Gen s 2 0 0; Gen s 3 0 0; DestroyRot s 3%Z]) s = [3; 1]
  /\ kills (spec_state_after false st [Gen s 2 0 0; Gen s 3 0 0]) (DestroyRot s 2%Z) s 1
  /\ NoDup (offered (spec_state_after false st [Gen s 2 0 0; Gen s 3 0 0]) s).
Proof.
  cbn zeta. split; [left; reflexivity|]. split.
  - cbn. intros [H|[H|[[_ [_ H]]|H]]]; try contradiction. discriminate.
  - split; [vm_compute; reflexivity|]. split.
    + cbn. repeat split. lia.
    + vm_compute. repeat constructor; cbn; intuition discriminate.
Qed.
