(** C09 (extension) — equality search over protected columns: WHERE condition TREES, and the hmac.Processor
    column state machine that re-verifies the index when a row is delivered.
    Only statements, closed by [exact], their assumptions, and non-vacuity examples / refutation witnesses.

    Conditions: [wcond] = AND / OR / NOT / parentheses over comparisons [cmp] (either operand order, a cast around
    the column and/or the value, literal or placeholder, any column).  [run_queryx] = HashQuery.OnQuery
    (FilterSearchableComparisons decides which comparisons are replaced by  substr(col,1,33) op index),
    HashQuery.OnBind, and the storage evaluating what it received; [d] = PostgreSQL or MySQL.
    HMAC-SHA-256 is NOT assumed injective: exactness is [P \/ explicit collision]. *)
From Acra Require Import Lib.Bytes Lib.Outcome Lib.Sha256 Crypto.Interface Crypto.Stub Gen.Consts
  Model.Envelope Model.EnvelopeOld Model.Search Model.SearchExt Proofs.Search Proofs.SearchExt.

(** * 1. condition trees *)

(** For every crypto record, dialect, keyset with an HMAC key, schema, condition tree in which every comparison
    with a searchable column has the shape the filter selects and the rewrite completes ([well_shaped]: bare
    column on the left; PostgreSQL: literal, cast literal or bare placeholder on the right; MySQL: literal or
    placeholder) and no placeholder is shared between a replaced and an untouched comparison, every bound
    values, every table of stored rows related to plaintext rows by [row_rel] (searchable cells hold
    index(plaintext) ++ anything, other cells are equal):
    the rows selected by the rewritten condition on the STORED rows are exactly the rows on which the condition as
    written holds for the PLAINTEXTS (a searched envelope standing for its content), OR there is an explicit
    HMAC collision between a stored plaintext and a searched value of the condition. *)
Theorem C09_rewritten_condition_equivalent :
  forall (C : crypto) d ks key schema c binds rows plains flags,
  ks_hmac ks = Some key ->
  well_shaped d schema c = true ->
  params_separated d schema c = true ->
  (d = MY -> NoDup (bind_idxs d schema c)) ->
  Forall2 (row_rel key schema) rows plains ->
  run_queryx C d ks schema rows c binds = Ok flags ->
  flags = map (fun prow => eval_w (mean_of C ks) schema binds prow c) plains
  \/ tree_collision C d ks key schema binds plains c.
Proof. exact rewritten_condition_equivalent. Qed.
Print Assumptions C09_rewritten_condition_equivalent.

(** the same statement for one row and one sub-tree (the induction that carries the theorem) *)
Theorem C09_rewritten_condition_equivalent_row :
  forall (C : crypto) d ks key schema binds nb srow prow,
  ks_hmac ks = Some key ->
  row_rel key schema srow prow ->
  forall c xc,
  well_shaped d schema c = true ->
  (forall i, In i (bind_idxs d schema c) -> bind_done C ks key binds nb i) ->
  (forall i, In i (plain_params d schema c) -> nth i nb [] = nth i binds []) ->
  rewrite_w C d ks schema c = Ok xc ->
  eval_x nb srow xc = eval_w (mean_of C ks) schema binds prow c
  \/ exists cm, In cm (cmps c) /\ cmp_collision C d ks key schema binds prow cm.
Proof. exact tree_equiv_row. Qed.
Print Assumptions C09_rewritten_condition_equivalent_row.

(** OnBind, PostgreSQL (each position once) and MySQL (positions distinct): afterwards exactly the placeholders of
    replaced comparisons carry index(meaning of the bound value); every other bound value is unchanged *)
Theorem C09_bound_values_after_bind :
  forall (C : crypto) d ks key schema c binds nb,
  ks_hmac ks = Some key ->
  (d = MY -> NoDup (bind_idxs d schema c)) ->
  on_bindx C d ks schema c binds = Ok nb ->
  (forall i, In i (bind_idxs d schema c) -> bind_done C ks key binds nb i) /\
  (forall i, ~ In i (bind_idxs d schema c) -> nth i nb [] = nth i binds []).
Proof. exact on_bindx_spec. Qed.
Print Assumptions C09_bound_values_after_bind.

(** ** non-vacuity: a concrete table written through the insert path, a tree with NOT, parentheses, AND, OR, a cast
    literal, placeholders (one of them used twice) and comparisons on the two other columns *)
Definition x_ks : keyset := Build_keyset None [] [repeat_bytes x01 32] (Some (repeat_bytes x02 32)).
Definition x_key : bytes := repeat_bytes x02 32.
Definition x_tape : list bytes := [repeat_bytes x03 32; repeat_bytes x04 12; repeat_bytes x05 12].
Definition x_alice : bytes := hb 0x1616c696365.
Definition x_ali : bytes := hb 0x1616c69.
Definition x_tagx : bytes := hb 0x178.
Definition x_tagy : bytes := hb 0x179.
Definition x_stored (p : bytes) : bytes :=
  match searchable_encrypt Stub ENVELOPE_ID_ACRABLOCK x_ks x_tape p with Ok s => s | _ => [] end.
Definition x_schema : list bool := [true; false; false].
Definition x_plains : list (list bytes) := [[x_alice; x_tagx; x_ali]; [x_ali; x_tagy; x_ali]; [x_alice; x_tagy; []]].
Definition x_rows : list (list bytes) :=
  Eval vm_compute in map (fun r => [x_stored (nth 0 r []); nth 1 r []; nth 2 r []]) x_plains.

Definition x_lit (neg : bool) (col : nat) (cast : bool) (v : bytes) := WCmp (mk_cmp neg false false col cast (OLit v)).
Definition x_par (neg : bool) (col : nat) (i : nat) := WCmp (mk_cmp neg false false col false (OParam i)).

(**  NOT (data1 = 'alice'::bytea AND plain = $2)  OR  (data1 <> $1 AND (data1 = $1 OR 'ali' <> data2))  *)
Definition x_tree : wcond :=
  WOr (WNot (WParen (WAnd (x_lit false 0 true x_alice) (x_par false 1 1))))
      (WParen (WAnd (x_par true 0 0)
                    (WParen (WOr (x_par false 0 0) (WCmp (mk_cmp true true false 2 false (OLit x_ali))))))).
Definition x_binds : list bytes := [x_ali; x_tagx].

Example x_premises :
  ks_hmac x_ks = Some x_key /\ well_shaped PG x_schema x_tree = true /\ params_separated PG x_schema x_tree = true
  /\ Forall2 (row_rel x_key x_schema) x_rows x_plains.
Proof.
  split; [reflexivity|]. split; [reflexivity|]. split; [reflexivity|].
  repeat constructor; intro col; destruct col as [|[|[|[|col]]]]; cbn [x_schema searchable nth];
    try reflexivity;
    match goal with |- exists _, cell ?r 0 = _ => exists (skipn HMAC_HASH_SIZE (cell r 0)); vm_compute; reflexivity end.
Qed.

Example x_round_pg :
  run_queryx Stub PG x_ks x_schema x_rows x_tree x_binds = Ok [false; true; true]
  /\ map (fun prow => eval_w (mean_of Stub x_ks) x_schema x_binds prow x_tree) x_plains = [false; true; true].
Proof. split; vm_compute; reflexivity. Qed.

(** MySQL: the same table, distinct placeholders *)
Definition x_tree_my : wcond :=
  WAnd (WNot (x_par false 0 0)) (WParen (WOr (x_lit false 0 false x_alice) (x_par true 1 1))).
Example x_round_my :
  well_shaped MY x_schema x_tree_my = true /\ params_separated MY x_schema x_tree_my = true
  /\ NoDup (bind_idxs MY x_schema x_tree_my)
  /\ run_queryx Stub MY x_ks x_schema x_rows x_tree_my x_binds = Ok [true; false; true]
  /\ map (fun prow => eval_w (mean_of Stub x_ks) x_schema x_binds prow x_tree_my) x_plains = [true; false; true].
Proof.
  split; [reflexivity|]. split; [reflexivity|]. split; [repeat constructor; cbn; intuition discriminate|].
  split; vm_compute; reflexivity.
Qed.

(** ** shapes outside [well_shaped]: refutation witnesses (known findings).
    In each case a row holds exactly the searched plaintext, the round succeeds, and the equality finds nothing. *)
Definition x_finds_nothing (d : dialect) (cm : cmp) (binds : list bytes) (v : bytes) : Prop :=
  ks_hmac x_ks = Some x_key /\ Forall2 (row_rel x_key x_schema) x_rows x_plains
  /\ (exists prow, In prow x_plains /\ cell prow 0 = v)
  /\ operand_value binds (c_val cm) = v /\ c_col cm = 0 /\ c_neg cm = false
  /\ well_shaped d x_schema (WCmp cm) = false
  /\ run_queryx Stub d x_ks x_schema x_rows (WCmp cm) binds = Ok [false; false; false].

Ltac x_refute :=
  split; [reflexivity|]; split; [apply x_premises|];
  split; [exists [x_alice; x_tagx; x_ali]; split; [left; reflexivity | reflexivity]|];
  repeat (split; [reflexivity|]); vm_compute; reflexivity.

(** known finding [literal-on-left]:  'alice' = data1  (both dialects) *)
Theorem C09_unselected_comparison_refuted :
  forall d, x_finds_nothing d (mk_cmp false true false 0 false (OLit x_alice)) [] x_alice.
Proof. intro d. destruct d; x_refute. Qed.
Print Assumptions C09_unselected_comparison_refuted.

(** known finding [cast-on-column]:  data1::bytea = 'alice'  /  CAST(data1 AS BINARY) = 'alice' *)
Theorem C09_cast_on_column_refuted :
  forall d, x_finds_nothing d (mk_cmp false false true 0 false (OLit x_alice)) [] x_alice.
Proof. intro d. destruct d; x_refute. Qed.
Print Assumptions C09_cast_on_column_refuted.

(** known finding [cast-around-placeholder] (PostgreSQL):  data1 = $1::bytea  is rewritten to
    substr(data1,1,33) = $1::bytea  but the bound value is never replaced by its index *)
Theorem C09_cast_around_placeholder_refuted :
  x_finds_nothing PG (mk_cmp false false false 0 true (OParam 0)) [x_alice] x_alice
  /\ rewrite_w Stub PG x_ks x_schema (WCmp (mk_cmp false false false 0 true (OParam 0)))
     = Ok (XSub false false 0 1 HASHN true (OParam 0))
  /\ on_bindx Stub PG x_ks x_schema (WCmp (mk_cmp false false false 0 true (OParam 0))) [x_alice] = Ok [x_alice].
Proof. split; [x_refute|]. split; vm_compute; reflexivity. Qed.
Print Assumptions C09_cast_around_placeholder_refuted.

(** known finding [cast-around-value-mysql]:  data1 = CAST('alice' AS BINARY)  is not selected *)
Theorem C09_cast_around_value_mysql_refuted :
  x_finds_nothing MY (mk_cmp false false false 0 true (OLit x_alice)) [] x_alice.
Proof. x_refute. Qed.
Print Assumptions C09_cast_around_value_mysql_refuted.

(** * 2. hmac.Processor: strip -> decrypting subscribers -> verify, for ALL column bytes, ANY envelope matcher
    and ANY behaviour of the subscribers in between *)

(** what is delivered for a column, completely: either no index is recognised and the column passes through the
    subscribers untouched by the processor, or the index is stripped, the subscribers produce [dec] from the
    rest, and then: index = HMAC(key, dec) -> [dec] with the subscribers' mark; otherwise the column AS STORED,
    marked not decrypted *)
Theorem C09_processor_column_spec :
  forall matcher inner ks key st data st' out flag,
  ks_hmac ks = Some key ->
  hp_column matcher inner ks st data = (st', Ok (out, flag)) ->
  ((extract_hash data = None \/ exists h rest, extract_hash data = Some (h, rest) /\ matcher rest = false)
   /\ inner data = Ok (out, flag))
  \/
  (exists h rest dec ch, extract_hash data = Some (h, rest) /\ matcher rest = true /\ inner rest = Ok (dec, ch) /\
     ((h = blind_index key dec /\ out = dec /\ flag = ch)
      \/ (h <> blind_index key dec /\ out = data /\ flag = false))).
Proof. exact hp_column_spec. Qed.
Print Assumptions C09_processor_column_spec.

Theorem C09_processor_plaintext_only_if_index_matches :
  forall matcher inner ks key st data st' h rest dec ch out flag,
  ks_hmac ks = Some key ->
  extract_hash data = Some (h, rest) -> matcher rest = true -> inner rest = Ok (dec, ch) ->
  hp_column matcher inner ks st data = (st', Ok (out, flag)) ->
  (out = dec /\ flag = ch /\ h = blind_index key dec) \/ (out = data /\ flag = false /\ h <> blind_index key dec).
Proof. exact hp_plaintext_only_if_index_matches. Qed.
Print Assumptions C09_processor_plaintext_only_if_index_matches.

Theorem C09_processor_mismatch_delivered_as_stored :
  forall matcher inner ks key st data h rest dec ch,
  ks_hmac ks = Some key ->
  extract_hash data = Some (h, rest) -> matcher rest = true -> inner rest = Ok (dec, ch) ->
  h <> blind_index key dec ->
  hp_column matcher inner ks st data = (None, Ok (data, false)).
Proof. exact hp_mismatch_delivered_as_stored. Qed.
Print Assumptions C09_processor_mismatch_delivered_as_stored.

Theorem C09_processor_match_delivers_plaintext :
  forall matcher inner ks key st (cont dec : bytes) ch,
  ks_hmac ks = Some key ->
  matcher cont = true -> inner cont = Ok (dec, ch) ->
  hp_column matcher inner ks st (blind_index key dec ++ cont) = (None, Ok (dec, ch)).
Proof. exact hp_match_delivers_plaintext. Qed.
Print Assumptions C09_processor_match_delivers_plaintext.

(** histories: whatever columns (rows) went through the processor before, and in whatever state they left it,
    every column is delivered as by a fresh processor; after a column that was answered nothing is kept *)
Theorem C09_processor_columns_independent :
  forall matcher inner ks cols st,
  hp_columns matcher inner ks st cols = map (fun c => snd (hp_column matcher inner ks None c)) cols.
Proof. exact hp_columns_independent. Qed.
Print Assumptions C09_processor_columns_independent.

Theorem C09_processor_state_clean :
  forall matcher inner ks st data st' out,
  hp_column matcher inner ks st data = (st', Ok out) -> st' = None.
Proof. exact hp_column_clean. Qed.
Print Assumptions C09_processor_state_clean.

(** ** non-vacuity and the repaired defect: a searchable column whose PLAINTEXT starts with the function id 0x7f
    and is at least 33 bytes long, through the concrete matcher and detector of the proxies *)
Definition x_p7f : bytes := x7f :: repeat_bytes x41 40.
Definition x_s7f : bytes := Eval vm_compute in x_stored x_p7f.
Definition x_next : bytes := hb 0x168656c6c6f.

Example x_fixed_processor_history :
  hp_columns envelope_match (proxy_inner Stub x_ks) x_ks None
    [x_s7f; x_next; nth 0 (nth 0 x_rows []) []; blind_index x_key x_ali ++ skipn HMAC_HASH_SIZE (nth 0 (nth 0 x_rows []) [])]
  = [Ok (x_p7f, true); Ok (x_next, false); Ok (x_alice, true);
     Ok (blind_index x_key x_ali ++ skipn HMAC_HASH_SIZE (nth 0 (nth 0 x_rows []) []), false)].
Proof. vm_compute. reflexivity. Qed.

(** the ORIGINAL state machine (one OnColumn subscribed twice): the same first column is delivered, and the call
    for the next column dereferences a nil hash *)
Theorem C09_original_processor_panics_refuted :
  exists st1,
    hp0_column envelope_match (proxy_inner Stub x_ks) x_ks hp0_init x_s7f = Ok (st1, (x_p7f, true))
    /\ hp0_column envelope_match (proxy_inner Stub x_ks) x_ks st1 x_next = Panic.
Proof.
  exists {| h0_hash := Some (firstn HMAC_HASH_SIZE x_s7f); h0_matched := None; h0_raw := x_s7f |}.
  split; vm_compute; reflexivity.
Qed.
Print Assumptions C09_original_processor_panics_refuted.
