(** Property C14 (envelope decoders): no byte string fed to an envelope extractor / decryptor,
    the serialized-container reader, the hash extractor or a column scanner makes the CHECKED model
    (every Go slice/index/make with its run-time check, Model/EnvelopeChecked.v) panic, loop or
    allocate more than the input; and the checked model equals the simple model of C01 on every input,
    so the round-trip theorems of C01 hold for it as well.
    [go_len s] (= [len s <= 2^47]) is true of every Go byte slice; it is needed where the code converts
    [len] to uint64 / adds to it in int64 (the model's lists are unbounded). *)
From Acra Require Import Lib.Bytes Lib.Outcome Lib.GoSlice Lib.Sha256 Crypto.Interface Crypto.Stub Gen.Consts
  Model.Envelope Model.EnvelopeChecked Proofs.Envelope Proofs.Scanner Proofs.EnvelopeChecked.
Local Open Scope Z_scope.

(** * (a) never panics *)
Theorem C14_ValidateAcraStructLength_total : forall data : bytes, as_validate_checked data <> Panic.
Proof. exact as_validate_checked_total. Qed.
Print Assumptions C14_ValidateAcraStructLength_total.

Theorem C14_GetDataLengthFromAcraStruct_total : forall data : bytes,
  (as_min <= length data)%nat -> as_data_length_checked data <> Panic.
Proof. exact as_data_length_checked_total. Qed.
Print Assumptions C14_GetDataLengthFromAcraStruct_total.

(** the length precondition is necessary (exported helper; every caller in /repo checks it first) *)
Theorem C14_GetDataLengthFromAcraStruct_unguarded_refuted : exists data : bytes, as_data_length_checked data = Panic.
Proof. exists []. vm_compute. reflexivity. Qed.
Print Assumptions C14_GetDataLengthFromAcraStruct_unguarded_refuted.

Theorem C14_ExtractAcraStruct_total : forall data : bytes, as_extract_checked data <> Panic.
Proof. exact as_extract_checked_total. Qed.
Print Assumptions C14_ExtractAcraStruct_total.

Theorem C14_ExtractAcraStruct_spec : forall (data : bytes) n s, as_extract_checked data = Ok (n, s) ->
  zn as_min <= n <= len data /\ s = firstn (Z.to_nat n) data /\ as_validate s = true.
Proof. exact as_extract_checked_spec. Qed.
Print Assumptions C14_ExtractAcraStruct_spec.

Theorem C14_DecryptAcrastruct_total : forall C (data priv ctx : bytes), as_decrypt_checked C data priv ctx <> Panic.
Proof. exact as_decrypt_checked_total. Qed.
Print Assumptions C14_DecryptAcrastruct_total.

Theorem C14_DecryptRotatedAcrastruct_total : forall C (data : bytes) privs (ctx : bytes),
  as_decrypt_rotated_checked C data privs ctx <> Panic.
Proof. exact as_decrypt_rotated_checked_total. Qed.
Print Assumptions C14_DecryptRotatedAcrastruct_total.

Theorem C14_ProcessAcraStructs_total : forall (proc : bytes -> res bytes) (inb outb : bytes),
  (forall x, proc x <> Panic) -> process_acrastructs_checked proc inb outb <> Panic.
Proof. intros proc inb outb H. exact (process_acrastructs_checked_total proc H inb outb). Qed.
Print Assumptions C14_ProcessAcraStructs_total.

Theorem C14_ExtractAcraBlockFromData_total : forall data : bytes, ab_extract_checked data <> Panic.
Proof. exact ab_extract_checked_total. Qed.
Print Assumptions C14_ExtractAcraBlockFromData_total.

Theorem C14_AcraBlock_Decrypt_total : forall C (b : bytes) keys (ctx : bytes), ab_decrypt_checked C b keys ctx <> Panic.
Proof. exact ab_decrypt_checked_total. Qed.
Print Assumptions C14_AcraBlock_Decrypt_total.

Theorem C14_AcraBlock_keyLength_total : forall b : bytes, (AB_MIN_SIZE <= length b)%nat -> ab_key_len_checked b <> Panic.
Proof. exact ab_key_len_checked_total. Qed.
Print Assumptions C14_AcraBlock_keyLength_total.

Theorem C14_AcraBlock_keyLength_unguarded_refuted : exists b : bytes, ab_key_len_checked b = Panic.
Proof. exists []. vm_compute. reflexivity. Qed.
Print Assumptions C14_AcraBlock_keyLength_unguarded_refuted.

Theorem C14_AcraBlock_keyID_total : forall b : bytes, ab_block_key_id_checked b <> Panic.
Proof. exact ab_block_key_id_checked_total. Qed.
Print Assumptions C14_AcraBlock_keyID_total.

Theorem C14_ProcessAcraBlocks_total : forall (proc : bytes -> res bytes) (inb outb : bytes),
  go_len inb -> (forall x, proc x <> Panic) -> process_acrablocks_checked proc inb outb <> Panic.
Proof. intros proc inb outb Hg H. exact (process_acrablocks_checked_total proc H inb outb Hg). Qed.
Print Assumptions C14_ProcessAcraBlocks_total.

Theorem C14_validateSerializedContainer_total : forall data : bytes, sc_validate_checked data <> Panic.
Proof. exact sc_validate_checked_total. Qed.
Print Assumptions C14_validateSerializedContainer_total.

Theorem C14_matchOldContainer_total : forall data : bytes, match_old_checked data <> Panic.
Proof. exact match_old_checked_total. Qed.
Print Assumptions C14_matchOldContainer_total.

Theorem C14_getEnvelopeIDFromData_total : forall data : bytes, envelope_kind_checked data <> Panic.
Proof. exact envelope_kind_checked_total. Qed.
Print Assumptions C14_getEnvelopeIDFromData_total.

Theorem C14_getSerializedContainerLength_total : forall enc : bytes,
  (SC_MIN_SIZE < length enc)%nat -> go_len enc -> sc_internal_length_checked enc <> Panic.
Proof. exact sc_internal_length_checked_total. Qed.
Print Assumptions C14_getSerializedContainerLength_total.

Theorem C14_getSerializedContainerLength_unguarded_refuted : exists enc : bytes, sc_internal_length_checked enc = Panic.
Proof. exists []. vm_compute. reflexivity. Qed.
Print Assumptions C14_getSerializedContainerLength_unguarded_refuted.

Theorem C14_DeserializeEncryptedData_total : forall enc : bytes, go_len enc -> sc_deserialize_checked enc <> Panic.
Proof. exact sc_deserialize_checked_total. Qed.
Print Assumptions C14_DeserializeEncryptedData_total.

Theorem C14_ExtractSerializedContainer_total : forall data : bytes, go_len data -> sc_extract_checked data <> Panic.
Proof. exact sc_extract_checked_total. Qed.
Print Assumptions C14_ExtractSerializedContainer_total.

Theorem C14_ExtractHash_total : forall data : bytes, extract_hash_checked data <> Panic.
Proof. exact extract_hash_checked_total. Qed.
Print Assumptions C14_ExtractHash_total.

Theorem C14_ExtractHashAndData_total : forall data : bytes, extract_hash_and_data_checked data <> Panic.
Proof. exact extract_hash_and_data_checked_total. Qed.
Print Assumptions C14_ExtractHashAndData_total.

Theorem C14_DecryptWithHandler_total : forall C id ks (data : bytes), go_len data ->
  decrypt_with_handler_checked C id ks data <> Panic.
Proof. exact decrypt_with_handler_checked_total. Qed.
Print Assumptions C14_DecryptWithHandler_total.

Theorem C14_RegistryHandler_Process_total : forall C ks (data : bytes), go_len data ->
  registry_process_checked C ks data <> Panic.
Proof. exact registry_process_checked_total. Qed.
Print Assumptions C14_RegistryHandler_Process_total.

Theorem C14_OnColumn_total : forall cbs (inb : bytes),
  go_len inb -> (forall cb x, In cb cbs -> cb x <> Panic) -> on_column_checked cbs inb <> Panic.
Proof. exact on_column_checked_total. Qed.
Print Assumptions C14_OnColumn_total.

Theorem C14_OnColumn_registry_total : forall C ks (inb : bytes), go_len inb ->
  on_column_checked [decrypt_handler (registry_process C ks)] inb <> Panic.
Proof. exact on_column_checked_registry_total. Qed.
Print Assumptions C14_OnColumn_registry_total.

(** * (b) the checked model IS the simple model (so C01's theorems are about code that cannot panic) *)
Theorem C14_ValidateAcraStructLength_checked_eq : forall data : bytes, as_validate_checked data = Ok (as_validate data).
Proof. exact as_validate_checked_eq. Qed.
Print Assumptions C14_ValidateAcraStructLength_checked_eq.

Theorem C14_GetDataLengthFromAcraStruct_checked_eq : forall data : bytes, (as_min <= length data)%nat ->
  as_data_length_checked data = Ok (as_data_length data).
Proof. exact as_data_length_checked_eq. Qed.
Print Assumptions C14_GetDataLengthFromAcraStruct_checked_eq.

Theorem C14_DecryptAcrastruct_checked_eq : forall C (data priv ctx : bytes),
  as_decrypt_checked C data priv ctx = as_decrypt C data priv ctx.
Proof. exact as_decrypt_checked_eq. Qed.
Print Assumptions C14_DecryptAcrastruct_checked_eq.

Theorem C14_ExtractAcraBlockFromData_checked_eq : forall data : bytes, go_len data ->
  ab_extract_checked data = res_map zfst (ab_extract data).
Proof. exact ab_extract_checked_eq. Qed.
Print Assumptions C14_ExtractAcraBlockFromData_checked_eq.

Theorem C14_AcraBlock_Decrypt_checked_eq : forall C (b : bytes) keys (ctx : bytes),
  ab_decrypt_checked C b keys ctx = ab_decrypt C b keys ctx.
Proof. exact ab_decrypt_checked_eq. Qed.
Print Assumptions C14_AcraBlock_Decrypt_checked_eq.

Theorem C14_validateSerializedContainer_checked_eq : forall data : bytes, sc_validate_checked data = Ok (sc_validate data).
Proof. exact sc_validate_checked_eq. Qed.
Print Assumptions C14_validateSerializedContainer_checked_eq.

Theorem C14_matchOldContainer_checked_eq : forall data : bytes, go_len data -> match_old_checked data = Ok (match_old data).
Proof. exact match_old_checked_eq. Qed.
Print Assumptions C14_matchOldContainer_checked_eq.

Theorem C14_getSerializedContainerLength_checked_eq : forall enc : bytes, (SC_MIN_SIZE < length enc)%nat -> go_len enc ->
  sc_internal_length_checked enc = of_option E_GENERIC (sc_internal_length enc).
Proof. exact sc_internal_length_checked_eq. Qed.
Print Assumptions C14_getSerializedContainerLength_checked_eq.

Theorem C14_DeserializeEncryptedData_checked_eq : forall enc : bytes, go_len enc -> sc_deserialize_checked enc = sc_deserialize enc.
Proof. exact sc_deserialize_checked_eq. Qed.
Print Assumptions C14_DeserializeEncryptedData_checked_eq.

Theorem C14_ExtractSerializedContainer_checked_eq : forall data : bytes, go_len data ->
  sc_extract_checked data = res_map zfst (sc_extract data).
Proof. exact sc_extract_checked_eq. Qed.
Print Assumptions C14_ExtractSerializedContainer_checked_eq.

Theorem C14_ExtractHashAndData_checked_eq : forall data : bytes, extract_hash_and_data_checked data = Ok (extract_hash data).
Proof. exact extract_hash_and_data_checked_eq. Qed.
Print Assumptions C14_ExtractHashAndData_checked_eq.

Theorem C14_ExtractHash_checked_eq : forall data : bytes, extract_hash_checked data = Ok (option_map fst (extract_hash data)).
Proof. exact extract_hash_checked_eq. Qed.
Print Assumptions C14_ExtractHash_checked_eq.

Theorem C14_DecryptWithHandler_checked_eq : forall C id ks (data : bytes), go_len data ->
  decrypt_with_handler_checked C id ks data = decrypt_with_handler C id ks data.
Proof. exact decrypt_with_handler_checked_eq. Qed.
Print Assumptions C14_DecryptWithHandler_checked_eq.

Theorem C14_RegistryHandler_Process_checked_eq : forall C ks (data : bytes), go_len data ->
  registry_process_checked C ks data = registry_process C ks data.
Proof. exact registry_process_checked_eq. Qed.
Print Assumptions C14_RegistryHandler_Process_checked_eq.

Theorem C14_OnColumn_checked_eq : forall cbs (inb : bytes), go_len inb -> on_column_checked cbs inb = on_column cbs inb.
Proof. exact on_column_checked_eq. Qed.
Print Assumptions C14_OnColumn_checked_eq.

(** * (c) bounded allocation / output *)
Theorem C14_DeserializeEncryptedData_alloc_bound : forall (enc i : bytes) id a, go_len enc ->
  sc_deserialize_alloc_checked enc = Ok (i, id, a) -> (a <= length enc)%nat.
Proof. exact sc_deserialize_alloc_bound. Qed.
Print Assumptions C14_DeserializeEncryptedData_alloc_bound.

(** OnColumn: if whatever the callbacks substitute for a candidate is at most K times as long as the
    stretch of input the candidate covers (the amount the scanner advances by), the output is at most
    K times the input.  NOTE the premise is about the covered stretch [n], not the container handed to
    the callback: a new-format candidate's container is the WHOLE remaining input, so "output no longer
    than the callback's argument" does NOT give a linear bound ([C14_OnColumn_quadratic_example]). *)
Theorem C14_OnColumn_output_bound : forall cbs K (inb out : bytes) ch, (1 <= K)%nat ->
  (forall (data : bytes) n c p, sc_extract data = Ok (n, c) -> run_callbacks cbs c = Ok (Some p) -> (length p <= K * n)%nat) ->
  go_len inb -> on_column_checked cbs inb = Ok (out, ch) -> (length out <= K * length inb)%nat.
Proof. intros cbs K inb out ch HK Hcb. exact (on_column_checked_out_bound cbs K HK Hcb inb out ch). Qed.
Print Assumptions C14_OnColumn_output_bound.

(** * (d) progress: every iteration strictly increases the absolute index and stays inside the input;
    hence the loops end within [length input + 1] iterations (any larger fuel gives the same result) *)
Theorem C14_OnColumn_scanner_progress : forall cbs (inb out : bytes) i ch out' i' ch',
  go_len inb -> 0 <= i <= len inb ->
  oc_step cbs inb (out, i, ch) = Ok (Continue (out', i', ch')) -> i < i' <= len inb.
Proof. exact oc_step_progress. Qed.
Print Assumptions C14_OnColumn_scanner_progress.

Theorem C14_OnColumn_terminates : forall cbs (inb : bytes) f, go_len inb -> (length inb < f)%nat ->
  on_column_checked cbs inb =
  (if (len inb <? zn SC_MIN_SIZE) || (Z.of_nat (length cbs) =? 0) then Ok (inb, false)
   else iterate f (oc_step cbs inb) ([], 0, false)).
Proof. exact on_column_checked_fuel. Qed.
Print Assumptions C14_OnColumn_terminates.

Theorem C14_ProcessAcraStructs_scanner_progress : forall proc (inb outb : bytes) i oi outb' i' oi',
  (forall x, proc x <> Panic) -> 0 <= i <= len inb -> 0 <= oi <= len outb ->
  pas_step proc inb (outb, i, oi) = Ok (Continue (outb', i', oi')) -> i < i' <= len inb.
Proof. intros proc inb outb i oi outb' i' oi' H. exact (pas_step_progress proc H inb outb i oi outb' i' oi'). Qed.
Print Assumptions C14_ProcessAcraStructs_scanner_progress.

Theorem C14_ProcessAcraStructs_terminates : forall proc (inb outb : bytes) f,
  (forall x, proc x <> Panic) -> (length inb < f)%nat ->
  process_acrastructs_checked proc inb outb =
  (if len inb <? as_min_z then Ok (gcopy outb inb) else iterate f (pas_step proc inb) (outb, 0, 0)).
Proof. intros proc inb outb f H. exact (process_acrastructs_checked_fuel proc H inb outb f). Qed.
Print Assumptions C14_ProcessAcraStructs_terminates.

Theorem C14_ProcessAcraBlocks_scanner_progress : forall proc (inb outb : bytes) i oi outb' i' oi',
  (forall x, proc x <> Panic) -> go_len inb -> 0 <= i <= len inb -> 0 <= oi <= len outb ->
  pab_step proc inb (outb, i, oi) = Ok (Continue (outb', i', oi')) -> i < i' <= len inb.
Proof. intros proc inb outb i oi outb' i' oi' H. exact (pab_step_progress proc H inb outb i oi outb' i' oi'). Qed.
Print Assumptions C14_ProcessAcraBlocks_scanner_progress.

Theorem C14_ProcessAcraBlocks_terminates : forall proc (inb outb : bytes) f,
  (forall x, proc x <> Panic) -> go_len inb -> (length inb < f)%nat ->
  process_acrablocks_checked proc inb outb =
  (if len inb <? zn AB_MIN_SIZE then Ok (gcopy outb inb) else iterate f (pab_step proc inb) (outb, 0, 0)).
Proof. intros proc inb outb f H. exact (process_acrablocks_checked_fuel proc H inb outb f). Qed.
Print Assumptions C14_ProcessAcraBlocks_terminates.

(** * non-vacuity *)
(* [go_len] holds of ordinary values *)
Example go_len_example : go_len (hb 0x1252525aabbcc).
Proof. unfold go_len. apply Z.leb_le. vm_compute. reflexivity. Qed.

(* a 13-byte new-format candidate [%%% | 13 | f1 | 00] is extracted, and a forged declared length is an error, not a panic *)
Definition cand13 : bytes := sc_tag ++ le_enc 8 13 ++ [ENVELOPE_ID_ACRASTRUCT; x00].
Example sc_extract_checked_ok : sc_extract_checked cand13 = Ok (13, cand13).
Proof. vm_compute. reflexivity. Qed.
Example sc_extract_checked_forged : sc_extract_checked (sc_tag ++ le_enc 8 18446744073709551615 ++ [ENVELOPE_ID_ACRASTRUCT; x00]) = Err E_GENERIC.
Proof. vm_compute. reflexivity. Qed.
(* an AcraBlock header with restLength = 2^64-4 (the input that panicked before fix af7c564) *)
Example ab_extract_checked_forged :
  ab_extract_checked (ab_tag ++ le_enc 8 18446744073709551612 ++ repeat_bytes x00 10) = Err E_GENERIC.
Proof. vm_compute. reflexivity. Qed.
(* a callback list satisfying the premises of the totality and bound theorems, with a changed output *)
Definition blank_cb : bytes -> res bytes := fun _ => Ok [].
Example out_bound_premise : forall (data : bytes) n c p, sc_extract data = Ok (n, c) ->
  run_callbacks [blank_cb] c = Ok (Some p) -> (length p <= 1 * n)%nat.
Proof. intros data n c p _. unfold run_callbacks, blank_cb. destruct (bytes_eqb [] c); [discriminate|]. intros [= <-]. cbn [length]. lia. Qed.
Example on_column_checked_changes : on_column_checked [blank_cb] (cand13 ++ [x41]) = Ok ([x41], true).
Proof. vm_compute. reflexivity. Qed.

(* why the bound's premise is about the covered stretch: a callback returning its argument minus one byte
   (never longer than its argument) turns 40 back-to-back 13-byte candidates (520 bytes) into 10 620 bytes *)
Fixpoint rep_bytes (n : nat) (b : bytes) : bytes := match n with O => [] | S k => b ++ rep_bytes k b end.
Definition tail_cb : bytes -> res bytes := fun c => Ok (skipn 1 c).
Definition quad_out_len : option N :=
  Eval vm_compute in match on_column_checked [tail_cb] (rep_bytes 40 cand13) with Ok (o, _) => Some (N.of_nat (length o)) | _ => None end.
Example C14_OnColumn_quadratic_example : quad_out_len = Some 10620%N /\ N.of_nat (length (rep_bytes 40 cand13)) = 520%N.
Proof. split; vm_compute; reflexivity. Qed.
