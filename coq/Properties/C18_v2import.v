(** C18 (extension v2import) — keystore v2 export -> import at key granularity, the serialized bundle
    layout, and the v1 -> v2 migration, brought inside the model.  Only statements, closed by [exact].
    Models: Model/DerV2Ext.v (DER of asn1.EncryptedKeys as acra declares it), Model/KeyRingV2Ext.v
    (exportKeyRings / importKeyRing / copyKey AS REPAIRED by patches/fix_v2_import_destroyed_key.diff,
    the getters of api.KeyRing, ring histories), Model/BundleV2Ext.v (ExportKeyRings / ImportKeyRings end to
    end over Model/Notary.v), Model/MigrateV2Ext.v (`acra-keys migrate` AS REPAIRED by
    patches/fix_migrate_poison_sym_context.diff and fix_v2_keypair_nil_half.diff).
    "Reads identically" = equality of [store_view]: the getters CurrentKey, AllKeys, State, ValidSince,
    ValidUntil, Formats, PublicKey, PrivateKey, SymmetricKey are functions of that view (Model, [g_*]). *)
From Coq Require Import List NArith ZArith Bool Permutation.
From Acra Require Import Lib.Bytes Lib.Outcome Crypto.Interface Crypto.Stub Gen.KsConsts Gen.X18Consts
  Model.KeyAtRest Model.Notary Model.Backup Model.DerV2Ext Model.KeyRingV2Ext Model.BundleV2Ext Model.MigrateV2Ext
  Proofs.Notary Proofs.DerV2Ext Proofs.KeyRingV2Ext Proofs.BundleV2Ext Proofs.ExportImportV2Ext
  Proofs.HistoryV2Ext Proofs.MigrateV2Ext Proofs.WitnessV2Ext.
Import ListNotations.

(** ======================= (1) export -> import at key granularity ======================= *)

(** HEADLINE.  For every crypto instance with the Themis laws, every source history of ring operations
    (one key format per key, as every caller in acra issues them), every selection of rings and export
    mode with the private bit, every target back end whatsoever (empty, other rings, the same rings) with a
    delegate that overwrites (or a target not holding the selected rings): if ImportKeyRings of the rings
    in DER SET order succeeds, every selected ring reads IDENTICALLY in the target (under the target's
    master key) and in the source, and every ring outside the selection is untouched. *)
Theorem C18_v2_export_import_identity_all_histories :
  forall (C : crypto), Correct C ->
  forall (smaster : bytes) (stape : list bytes) (sops : list rop) (mode : N) (paths : list bytes) (rs : list ring)
         (tmaster : bytes) (deleg : ring -> ring -> decision) (tb : backend) (tape : list bytes),
  nonces_ok stape -> Forall op_ok sops ->
  private_mode mode -> tmaster <> [] -> nonces_ok tape -> NoDup paths ->
  export_rings C smaster (built C smaster stape sops) mode paths = Ok rs ->
  (always_imports deleg \/ Forall (fun p => b_get p tb = None) paths) ->
  let i := import_rings C tmaster deleg tb tape (sorted_rings rs) in
  im_res i = Ok tt ->
  (forall p, In p paths -> store_view C tmaster (im_b i) p = store_view C smaster (built C smaster stape sops) p) /\
  (forall q, ~ In q paths -> b_get q (im_b i) = b_get q tb).
Proof. exact export_import_identity_histories. Qed.
Print Assumptions C18_v2_export_import_identity_all_histories.

(** the same for ANY source back end whose selected rings are well-formed (not only built ones) *)
Theorem C18_v2_export_import_identity :
  forall (C : crypto), Correct C ->
  forall (smaster : bytes) (sb : backend) (mode : N) (paths : list bytes) (rs : list ring)
         (tmaster : bytes) (deleg : ring -> ring -> decision) (tb : backend) (tape : list bytes),
  private_mode mode -> tmaster <> [] -> nonces_ok tape ->
  NoDup paths -> Forall (src_ring_ok sb) paths ->
  export_rings C smaster sb mode paths = Ok rs ->
  (always_imports deleg \/ Forall (fun p => b_get p tb = None) paths) ->
  let i := import_rings C tmaster deleg tb tape (sorted_rings rs) in
  im_res i = Ok tt ->
  (forall p, In p paths -> store_view C tmaster (im_b i) p = store_view C smaster sb p) /\
  (forall q, ~ In q paths -> b_get q (im_b i) = b_get q tb).
Proof. exact export_import_identity. Qed.
Print Assumptions C18_v2_export_import_identity.

(** every store built by a history consists of rings of that shape (induction over the history) *)
Theorem C18_v2_history_rings_wellformed :
  forall (C : crypto), Correct C ->
  forall (master : bytes) (tape : list bytes) (ops : list rop) (p : bytes) (r : ring),
  nonces_ok tape -> Forall op_ok ops -> b_get p (built C master tape ops) = Some r ->
  src_ring_ok (built C master tape ops) p.
Proof. exact history_rings_ok. Qed.
Print Assumptions C18_v2_history_rings_wellformed.

(** export side alone: the plaintext ring in the bundle IS the reader's view of the source ring *)
Theorem C18_v2_exported_ring_is_source_view :
  forall (C : crypto), Correct C ->
  forall (master : bytes) (b : backend) (mode : N) (path : bytes) (r pr : ring),
  private_mode mode -> b_get path b = Some r -> wf_sring r ->
  export_ring C master b mode path = Ok pr ->
  plain_ring pr = view_ring C master path r /\ Forall wf_pkey (r_keys pr) /\ r_purpose pr = r_purpose r /\
  Forall2 (fun k pk => length (k_data pk) = length (k_data k)) (r_keys r) (r_keys pr).
Proof. exact export_ring_ok. Qed.
Print Assumptions C18_v2_exported_ring_is_source_view.

(** import side alone: after a successful import every plaintext ring of the list reads back as itself *)
Theorem C18_v2_imported_rings_read_as_exported :
  forall (C : crypto), Correct C ->
  forall (master : bytes) (deleg : ring -> ring -> decision) (rs : list ring) (b : backend) (tape : list bytes),
  master <> [] -> nonces_ok tape -> Forall wf_pring rs -> NoDup (map r_purpose rs) ->
  (always_imports deleg \/ Forall (fun nr => b_get (r_purpose nr) b = None) rs) ->
  im_res (import_rings C master deleg b tape rs) = Ok tt ->
  Forall (fun nr => store_view C master (im_b (import_rings C master deleg b tape rs)) (r_purpose nr) = Some (plain_ring nr)) rs.
Proof. exact import_rings_identity. Qed.
Print Assumptions C18_v2_imported_rings_read_as_exported.

(** rings not named in the bundle are untouched — for EVERY delegate, every outcome (also a failed or
    aborted import), every ring list *)
Theorem C18_v2_rings_outside_bundle_untouched :
  forall (C : crypto) (master : bytes) (deleg : ring -> ring -> decision) (rs : list ring) (b : backend)
         (tape : list bytes) (q : bytes),
  ~ In q (map r_purpose rs) -> b_get q (im_b (import_rings C master deleg b tape rs)) = b_get q b.
Proof. exact import_rings_frame. Qed.
Print Assumptions C18_v2_rings_outside_bundle_untouched.

(** no-overwrite modes: a skipped ring stays as it is; the default delegate refuses an existing ring *)
Theorem C18_v2_skip_keeps_existing_ring :
  forall (C : crypto) (master : bytes) (deleg : ring -> ring -> decision) (b : backend) (tape : list bytes) (nr cur : ring),
  b_get (r_purpose nr) b = Some cur -> deleg cur nr = DSkip ->
  im_b (import_ring C master deleg b tape nr) = b /\ im_res (import_ring C master deleg b tape nr) = Ok tt /\
  im_events (import_ring C master deleg b tape nr) = [].
Proof. exact import_ring_skip. Qed.
Print Assumptions C18_v2_skip_keeps_existing_ring.

Theorem C18_v2_default_delegate_refuses_existing_ring :
  forall (C : crypto) (master : bytes) (b : backend) (tape : list bytes) (nr cur : ring),
  b_get (r_purpose nr) b = Some cur ->
  im_b (import_ring C master deleg_default b tape nr) = b /\
  im_res (import_ring C master deleg_default b tape nr) = Err E_RING_EXISTS /\
  im_events (import_ring C master deleg_default b tape nr) = [].
Proof. exact import_ring_default_conflict. Qed.
Print Assumptions C18_v2_default_delegate_refuses_existing_ring.

(** confidentiality of what import writes: every private / symmetric field of every ring handed to the
    target back end is empty or ONE seal under the target's master key with the (path, kind, seqnum)
    context; and the events are all that reaches the back end *)
Theorem C18_v2_import_writes_sealed :
  forall (C : crypto) (master : bytes) (deleg : ring -> ring -> decision) (rs : list ring) (b : backend) (tape : list bytes),
  nonces_ok tape ->
  Forall (fun e => ring_sealed C master (fst e) (snd e)) (im_events (import_rings C master deleg b tape rs)).
Proof. exact import_rings_sealed. Qed.
Print Assumptions C18_v2_import_writes_sealed.

Theorem C18_v2_import_events_are_the_writes :
  forall (C : crypto) (master : bytes) (deleg : ring -> ring -> decision) (rs : list ring) (b : backend) (tape : list bytes),
  im_b (import_rings C master deleg b tape rs) = apply_events b (im_events (import_rings C master deleg b tape rs)).
Proof. exact import_rings_events. Qed.
Print Assumptions C18_v2_import_events_are_the_writes.

(** ======================= bundle level (ExportKeyRings / ImportKeyRings) ======================= *)

(** the honest path end to end: importing the sealed and signed DER of the exported rings = importing
    those rings in DER SET order (bundle confidentiality: C18_bundle_sealed_v2) *)
Theorem C18_v2_import_bundle_of_export :
  forall (mac : bytes -> bytes -> bytes) (C : crypto), Correct C ->
  forall (oid sign_key enc_key nonce payload smaster : bytes) (sb : backend) (mode : N) (paths : list bytes) (rs : list ring)
         (tmaster : bytes) (deleg : ring -> ring -> decision) (tb : backend) (tape : list bytes),
  export_rings C smaster sb mode paths = Ok rs ->
  enc_key <> [] -> length nonce = NONCE_LEN -> wf_rings rs ->
  (N.of_nat (length (der_rings rs)) < MAXMSG)%N ->
  import_bundle mac C [(oid, sign_key)] (sign_data mac [(oid, sign_key)] payload V2_EXPORT_CTX) enc_key payload
                (seal_enc C enc_key V2_EXPORT_CTX nonce (der_rings rs)) tmaster deleg tb tape
  = import_rings C tmaster deleg tb tape (sorted_rings rs).
Proof. exact import_of_export_bundle. Qed.
Print Assumptions C18_v2_import_bundle_of_export.

(** a bundle that does not open — modified container, wrong access keys — leaves the target unchanged *)
Theorem C18_v2_rejected_bundle_target_unchanged :
  forall (mac : bytes -> bytes -> bytes) (C : crypto) (algs sigs : list (bytes * bytes)) (enc_key payload enc master : bytes)
         (deleg : ring -> ring -> decision) (b : backend) (tape : list bytes),
  (forall ser, open_bundle mac C algs sigs enc_key payload enc <> Ok ser) ->
  let i := import_bundle mac C algs sigs enc_key payload enc master deleg b tape in
  im_b i = b /\ im_events i = [] /\ im_tape i = tape /\ im_res i <> Ok tt.
Proof. exact rejected_bundle_target_unchanged. Qed.
Print Assumptions C18_v2_rejected_bundle_target_unchanged.

(** reduction: ANY container presented to ImportKeyRings either leaves the target untouched, or carries a
    MAC that the exporter made over exactly this payload, or exhibits a MAC forgery *)
Theorem C18_v2_modified_bundle_rejected_or_forgery :
  forall (mac : bytes -> bytes -> bytes) (C : crypto) (algs sigs : list (bytes * bytes)) (enc_key payload enc master : bytes)
         (deleg : ring -> ring -> decision) (b : backend) (tape : list bytes) (signed : list bytes),
  let i := import_bundle mac C algs sigs enc_key payload enc master deleg b tape in
  (im_b i = b /\ im_events i = []) \/
  ((In (mac_input V2_EXPORT_CTX payload) signed \/ mac_forgery mac algs sigs signed) /\
   exists ser, cell_decrypt C enc_key V2_EXPORT_CTX enc = Some ser).
Proof. exact modified_bundle_rejected_or_forgery. Qed.
Print Assumptions C18_v2_modified_bundle_rejected_or_forgery.

(** ======================= (3) the serialized layout ======================= *)

(** parse ∘ serialize: asn1.UnmarshalEncryptedKeys (EncryptedKeys.Marshal rings) = the rings in SET order *)
Theorem C18_der_parse_serialize :
  forall rs : list ring, wf_rings rs -> parse_rings (der_rings rs) = Some (sorted_rings rs).
Proof. exact parse_der_rings. Qed.
Print Assumptions C18_der_parse_serialize.

Theorem C18_der_set_order_is_permutation :
  forall rs : list ring, Permutation (map snd (set_of der_ring rs)) rs.
Proof. exact (set_of_perm der_ring). Qed.
Print Assumptions C18_der_set_order_is_permutation.

Theorem C18_der_integer_roundtrip : forall z : Z, int64 z -> int_value (int_content z) = z.
Proof. exact int_value_content. Qed.
Print Assumptions C18_der_integer_roundtrip.

Theorem C18_der_tlv_roundtrip :
  forall (t : byte) (c rest : bytes), fits32 c -> read_tlv (tlv t c ++ rest) = Some (t, c, rest).
Proof. exact read_tlv_tlv. Qed.
Print Assumptions C18_der_tlv_roundtrip.

(** ======================= (2) v1 -> v2 migration ======================= *)

(** for every v1 file tree, every classification result with pairwise different target rings, every
    clock / nonce assignment: if MigrateV1toV2 reports success (all classified keys imported) then every
    key is in its v2 ring as the ring's only key, with the first sequence number, CURRENT, and the
    plaintext the v1 store held *)
Theorem C18_migrate_imported_keys_arrive :
  forall (C : crypto), Correct C ->
  forall (m1 m2 : bytes) (aux : bytes -> bytes * bytes * bytes) (files : list xfile) (ks : list xkey) (b : backend),
  m2 <> [] -> aux_ok aux -> files_small files ->
  NoDup (map kpath ks) -> Forall (fun k => b_get (kpath k) b = None) ks ->
  snd (import_all C m1 m2 aux files b ks) = length ks ->
  Forall (fun k => exists d, exported_data C m1 files k = Ok d /\
                             arrived C m2 (fst (import_all C m1 m2 aux files b ks)) (kpath k) d) ks.
Proof. exact import_all_arrive. Qed.
Print Assumptions C18_migrate_imported_keys_arrive.

Theorem C18_migrate_touches_only_target_rings :
  forall (C : crypto) (m1 m2 : bytes) (aux : bytes -> bytes * bytes * bytes) (files : list xfile) (ks : list xkey)
         (b : backend) (q : bytes),
  ~ In q (map kpath ks) -> b_get q (fst (import_all C m1 m2 aux files b ks)) = b_get q b.
Proof. exact import_all_frame. Qed.
Print Assumptions C18_migrate_touches_only_target_rings.

(** KNOWN FINDING v1-migrate-rotated-keys-not-carried: a v1 tree with one rotated symmetric key (both
    files are genuine keys of the client under the v1 master key): the migration fails and the v2 ring
    holds only the current key *)
Theorem C18_migrate_rotated_keys_refuted :
  exists files,
    Forall (fun f => exists key, cell_decrypt Stub w_master1 w_id (xf_data f) = Some key) files /\
    length files = 2%nat /\
    let r := migrate_from Stub w_master1 w_master2 w_aux files [] in
    mg_ok r = false /\ mg_expected r = 2%nat /\ mg_imported r = 1%nat /\
    option_map (fun v => g_all_keys v)
               (store_view Stub w_master2 (mg_b r) (RING_STORAGE_SYM_PRE ++ w_id ++ RING_STORAGE_SYM_POST)) = Some [1%Z].
Proof. exact migrate_rotated_keys_refuted. Qed.
Print Assumptions C18_migrate_rotated_keys_refuted.

(** REPAIRED defects, pinned: copyKey before the repair refused the destroyed marker that export emits;
    the classifier's context for the poison symmetric key differed from the one the key is sealed with *)
Theorem C18_import_destroyed_marker_pinned_refuted :
  exists (r : ring) (k : rkey),
    export_ring Stub w_master1 w_src EXPORT_PRIVATE_KEYS w_path_sym = Ok r /\ In k (r_keys r) /\
    k_state k = STATE_DESTROYED /\
    fst (copy_key_pinned Stub w_master2 w_path_sym [] k) = Err E_NO_KEY_DATA /\
    fst (copy_key Stub w_master2 w_path_sym [] k) = Ok k.
Proof. exact destroyed_marker_pinned_refuted. Qed.
Print Assumptions C18_import_destroyed_marker_pinned_refuted.

(** ======================= non-vacuity ======================= *)
Example C18_v2_scenario_example : w_check = true.
Proof. exact w_check_true. Qed.
Example C18_v2_scenario_ops_ok : Forall op_ok w_ops.
Proof. exact w_ops_ok. Qed.
Example C18_v2_scenario_getters_agree :
  option_map w_queries (store_view Stub w_master2 (im_b w_import) w_path_sym) =
  option_map w_queries (store_view Stub w_master1 w_src w_path_sym) /\
  option_map w_queries (store_view Stub w_master1 w_src w_path_sym) =
  Some (Ok 2%Z, [3%Z; 2%Z; 1%Z], Ok STATE_DESTROYED, Err E_KEY_DESTROYED, Ok (repeat_bytes x42 32),
        Ok (repeat_bytes x44 32), Ok w_t1).
Proof. exact w_getters_agree. Qed.
Example C18_v2_scenario_unrelated_untouched :
  b_get RING_AUDIT_LOG (im_b w_import) = b_get RING_AUDIT_LOG w_tgt /\ b_get RING_AUDIT_LOG w_tgt <> None.
Proof. exact w_unrelated_untouched. Qed.
Example C18_migrate_plain_example :
  let r := migrate_from Stub w_master1 w_master2 w_aux w_files_plain [] in
  mg_ok r = true /\
  option_map (fun v => (g_current v, g_all_keys v, g_symmetric v 1 FORMAT_SYMMETRIC))
             (store_view Stub w_master2 (mg_b r) (RING_STORAGE_SYM_PRE ++ w_id ++ RING_STORAGE_SYM_POST))
  = Some (Ok 1%Z, [1%Z], Ok w_cur_key).
Proof. exact migrate_plain_example. Qed.
Example C18_poison_sym_context_example :
  x_ctx (classify (V1_SLASH ++ V1_POISON_NAME ++ V1_SUF_SYM)) = V1_POISON_NAME ++ V1_SUF_SYM /\
  V1_POISON_NAME ++ V1_SUF_SYM <> V1_POISON_NAME.
Proof. exact poison_sym_context_pinned_refuted. Qed.
