(** C12 — RowDescription / ParameterDescription: byte-exact codec round trips, the rewritten description is
    well-formed and differs from the original in type ids only, every other database message and the client's start-up
    phase are relayed byte for byte (statements; proofs in Proofs/PgDesc.v). *)
From Acra Require Import Lib.Bytes Lib.Outcome Lib.GoSlice Gen.WireConsts Gen.WireDescConsts Model.PgWire Model.PgDesc
  Proofs.PgWire Proofs.PgDesc.
Local Open Scope N_scope.

(** ** codec round trips *)
(** parse . serialise: for ALL lists of in-range fields (names without a 0 byte, at most 65535 fields) and ALL
    trailing bytes, the decoder returns exactly those fields and leaves the trailing bytes *)
Theorem C12_pg_rowdesc_decode_encode : forall (fs : list fielddesc) (rest : bytes),
  Forall wf_fd fs -> N.of_nat (length fs) < 65536 -> rd_decode_rest (rd_payload fs ++ rest) = Ok (fs, rest).
Proof. exact rd_decode_rest_app. Qed.
Print Assumptions C12_pg_rowdesc_decode_encode.

(** serialise . parse: for ALL byte strings the decoder accepts, the input is the protocol encoding of the decoded
    fields followed by the bytes it ignores; the fields are in range and as many as declared *)
Theorem C12_pg_rowdesc_encode_decode : forall (src : bytes) fs rest, rd_decode_rest src = Ok (fs, rest) ->
  src = rd_payload fs ++ rest /\ Forall wf_fd fs /\ N.of_nat (length fs) < 65536.
Proof. exact rd_decode_rest_inv. Qed.
Print Assumptions C12_pg_rowdesc_encode_decode.

Theorem C12_pg_paramdesc_decode_encode : forall oids : list N,
  Forall (fun o => o < 2^32) oids -> pd_decode (pd_payload oids) = Ok oids.
Proof. exact pd_decode_app. Qed.
Print Assumptions C12_pg_paramdesc_decode_encode.

Theorem C12_pg_paramdesc_encode_decode : forall (src : bytes) oids, pd_decode src = Ok oids ->
  exists c tail : bytes, src = c ++ oids_bytes oids ++ tail /\ length c = 2%nat /\ (length tail < 4)%nat
                         /\ Forall (fun o => o < 2^32) oids.
Proof. exact pd_decode_inv. Qed.
Print Assumptions C12_pg_paramdesc_encode_decode.

Definition ex_fs : list fielddesc :=
  [mk_fd (hb 0x16964) 16384 1 23 4 4294967295 0; mk_fd [] 0 0 17 65535 4294967295 1; mk_fd (hb 0x1c3a9) 1 65535 1043 65534 68 0].
Lemma ex_fs_wf : Forall wf_fd ex_fs.
Proof.
  unfold ex_fs. repeat (apply Forall_cons || apply Forall_nil); unfold wf_fd; cbn [fd_name fd_table fd_attr fd_type fd_size fd_mod fd_format];
    (split; [vm_compute; intuition discriminate| repeat split; lia]).
Qed.
Example C12_pg_rowdesc_roundtrip_nonvacuous :
  rd_decode_rest (rd_payload ex_fs ++ hb 0x15a0000000549) = Ok (ex_fs, hb 0x15a0000000549)
  /\ rd_encode ex_fs = Ok (rd_payload ex_fs) /\ length (rd_payload ex_fs) = 63%nat.
Proof. split; [apply C12_pg_rowdesc_decode_encode; [exact ex_fs_wf| cbn; lia]|]. split; vm_compute; reflexivity. Qed.
Example C12_pg_paramdesc_roundtrip_nonvacuous :
  pd_decode (pd_payload [25; 705; 4294967295]) = Ok [25; 705; 4294967295] /\ pd_decode (hb 0x1ffff0000001909) = Ok [25].
Proof. split; vm_compute; reflexivity. Qed.

(** ** the rewrite *)
(** for ALL session items (absent, any length, any settings) and ALL packets: handleRowDescription leaves the packet
    as it is, or replaces it by the re-encoding of the decoded fields: the length field declares the actual length,
    the payload parses back into exactly the rewritten fields with nothing left, the number of fields is unchanged,
    field [i] is [rw_field items[i]] of the original field [i], and the size is the original minus ignored bytes *)
Theorem C12_pg_rowdesc_rewrite_wf : forall items p p', handle_row_description items p = Ok p' ->
  p' = p \/
  exists its fs (rest : bytes),
    items = Some its /\ rd_decode_rest (p_desc p) = Ok (fs, rest) /\ length its = length fs /\
    p' = mk_packet (p_type p) (packet_length_buf (N.of_nat (length (rd_payload (zip_rw its fs))))) (rd_payload (zip_rw its fs)) /\
    rd_decode_rest (rd_payload (zip_rw its fs)) = Ok (zip_rw its fs, []) /\
    length (zip_rw its fs) = length fs /\
    (forall i f, nth_error fs i = Some f -> nth_error (zip_rw its fs) i = Some (rw_field (nth i its None) f)) /\
    (length (rd_payload (zip_rw its fs)) + length rest = length (p_desc p))%nat.
Proof. exact pg_rowdesc_rewrite_wf. Qed.
Print Assumptions C12_pg_rowdesc_rewrite_wf.

(** what [rw_field] does, for ALL settings and fields: name, table, column, size, modifier and format keep their
    values; without a type-aware setting with a registered type the field is identical; otherwise the type id is the
    setting's, one of the registered ids *)
Theorem C12_pg_rowdesc_only_type_changes : forall it f,
  fd_name (rw_field it f) = fd_name f /\ fd_table (rw_field it f) = fd_table f /\ fd_attr (rw_field it f) = fd_attr f
  /\ fd_size (rw_field it f) = fd_size f /\ fd_mod (rw_field it f) = fd_mod f /\ fd_format (rw_field it f) = fd_format f
  /\ (new_oid it = None -> rw_field it f = f)
  /\ (forall o, new_oid it = Some o -> fd_type (rw_field it f) = o /\ In o PG_DESC_TYPE_OIDS).
Proof. exact rw_field_spec. Qed.
Print Assumptions C12_pg_rowdesc_only_type_changes.

(** no item asks for a type: the packet is returned as it is, whatever it contains *)
Theorem C12_pg_rowdesc_untyped_identity : forall its p,
  Forall (fun it => new_oid it = None) its -> handle_row_description (Some its) p = Ok p.
Proof. exact pg_rowdesc_untyped_identity. Qed.
Print Assumptions C12_pg_rowdesc_untyped_identity.

Theorem C12_pg_paramdesc_rewrite_wf : forall items p p', handle_parameter_description items p = Ok p' ->
  p' = p \/
  exists its oids,
    items = Some its /\ pd_decode (p_desc p) = Ok oids /\
    p' = mk_packet (p_type p) (packet_length_buf (N.of_nat (length (pd_payload (zip_rw_oids its oids))))) (pd_payload (zip_rw_oids its oids)) /\
    pd_decode (pd_payload (zip_rw_oids its oids)) = Ok (zip_rw_oids its oids) /\
    length (zip_rw_oids its oids) = length oids /\
    (forall i o, nth_error oids i = Some o -> nth_error (zip_rw_oids its oids) i = Some (rw_oid (nth i its None) o)) /\
    (length (pd_payload (zip_rw_oids its oids)) <= length (p_desc p))%nat /\
    (p_desc p = pd_payload oids -> length (pd_payload (zip_rw_oids its oids)) = length (p_desc p)).
Proof. exact pg_paramdesc_rewrite_wf. Qed.
Print Assumptions C12_pg_paramdesc_rewrite_wf.

Theorem C12_pg_paramdesc_untyped_identity : forall its p,
  Forall (fun it => new_oid it = None) its -> handle_parameter_description (Some its) p = Ok p.
Proof. exact pg_paramdesc_untyped_identity. Qed.
Print Assumptions C12_pg_paramdesc_untyped_identity.

(** non-vacuity: three columns, the first retyped to int8 (20), the second without a setting, the third with a masking
    setting that has no type id (not type-aware): only the four type-id bytes of column 0 differ *)
Definition ex_items : option (list (option setting)) :=
  Some [Some (mk_setting true false false 20); None; Some (mk_setting false false true 0)].
Definition ex_packet : packet :=
  mk_packet PG_ROWDESC_TYPE (packet_length_buf (N.of_nat (length (rd_payload ex_fs)))) (rd_payload ex_fs).
Example C12_pg_rowdesc_rewrite_nonvacuous :
  handle_row_description ex_items ex_packet
  = Ok (mk_packet PG_ROWDESC_TYPE (p_lenbuf ex_packet)
          (rd_payload [mk_fd (hb 0x16964) 16384 1 20 4 4294967295 0; mk_fd [] 0 0 17 65535 4294967295 1;
                       mk_fd (hb 0x1c3a9) 1 65535 1043 65534 68 0]))
  /\ handle_parameter_description ex_items (mk_packet PG_PARAMDESC_TYPE (be_enc 4 14) (pd_payload [25; 705]))
     = Ok (mk_packet PG_PARAMDESC_TYPE (be_enc 4 14) (pd_payload [20; 705])).
Proof. split; vm_compute; reflexivity. Qed.

(** the code as found: a description with bytes after its last field went out under the old length *)
Theorem C12_pg_rowdesc_stale_length_old_refuted : exists items p p',
  Z.of_nat (length (p_desc p)) = data_length (p_lenbuf p) /\
  handle_row_description_old items p = Ok p' /\ Z.of_nat (length (p_desc p')) <> data_length (p_lenbuf p').
Proof. exact pg_rowdesc_stale_length_old_refuted. Qed.
Print Assumptions C12_pg_rowdesc_stale_length_old_refuted.

Theorem C12_pg_paramdesc_stale_length_old_refuted : exists items p p',
  Z.of_nat (length (p_desc p)) = data_length (p_lenbuf p) /\
  handle_parameter_description_old items p = Ok p' /\ Z.of_nat (length (p_desc p')) <> data_length (p_lenbuf p').
Proof. exact pg_paramdesc_stale_length_old_refuted. Qed.
Print Assumptions C12_pg_paramdesc_stale_length_old_refuted.

(** ** relay *)
(** ReadPacket + handleDatabasePacket + sendPacket, for ALL streams, ALL session items and ANY DataRow handler: a
    message whose type is not DataRow / RowDescription / ParameterDescription goes out byte for byte and the rest of
    the stream is untouched (ErrorResponse, NoticeResponse, ReadyForQuery, CopyData, authentication, unknown types...) *)
Theorem C12_pg_db_relay_identity : forall ri pi row s p rest,
  read_msg s = Ok (p, rest) -> db_rewritten_type (p_type p) = false -> p_type p <> PG_WITHOUT_MESSAGE_TYPE ->
  exists sent, db_step ri pi row s = Ok (sent, rest) /\ sent ++ rest = s.
Proof. exact pg_db_relay_identity. Qed.
Print Assumptions C12_pg_db_relay_identity.

(** a description leaves the proxy as exactly one well-framed message of the same type, never longer than it came,
    and the bytes after it are not touched *)
Theorem C12_pg_db_desc_step_framed : forall ri pi row s p rest sent rest',
  read_msg s = Ok (p, rest) -> p_type p = PG_ROWDESC_TYPE \/ p_type p = PG_PARAMDESC_TYPE ->
  db_step ri pi row s = Ok (sent, rest') ->
  rest' = rest /\ exists payload, sent = frame (p_type p) payload /\ (length payload <= length (p_desc p))%nat.
Proof. exact pg_db_desc_step_framed. Qed.
Print Assumptions C12_pg_db_desc_step_framed.

Example C12_pg_db_relay_nonvacuous :
  db_step ex_items ex_items (fun p => Ok p) (hb 0x14500000008534600005a0000000549) = Ok (hb 0x1450000000853460000, hb 0x15a0000000549)
  /\ db_step ex_items ex_items (fun p => Ok p) (marshal ex_packet ++ hb 0x15a0000000549)
     = Ok (frame PG_ROWDESC_TYPE (rd_payload (zip_rw [Some (mk_setting true false false 20)] ex_fs)), hb 0x15a0000000549).
Proof. split; vm_compute; reflexivity. Qed.

(** the client side, for ALL streams that start with a start-up message (StartupMessage, SSLRequest, CancelRequest,
    GSSENCRequest as readStartupPacket accepts them) followed by ANY list of well-framed general messages: the
    read/send loop of one handler emits the stream byte for byte *)
Theorem C12_pg_client_stream_identity : forall s p rest ms fuel,
  read_startup s = Ok (p, rest) -> rest = frames ms -> Forall wf_msg ms -> (length ms < fuel)%nat ->
  fst (client_relay (S fuel) false s) = s.
Proof. exact pg_client_stream_identity. Qed.
Print Assumptions C12_pg_client_stream_identity.

(** the first message of a client connection is read as a start-up message and nothing else *)
Theorem C12_pg_client_first_is_startup : forall s p rest st,
  read_client false s = Ok (p, rest, st) -> read_startup s = Ok (p, rest) /\ st = true /\ p_type p = PG_WITHOUT_MESSAGE_TYPE.
Proof. exact read_client_first_is_startup. Qed.
Print Assumptions C12_pg_client_first_is_startup.

Example C12_pg_client_stream_nonvacuous :
  client_relay 9 false (PG_SSL_REQUEST_HEADER ++ frames [(x53, []); (x70, hb 0x1736563726574); (x58, [])])
  = (PG_SSL_REQUEST_HEADER ++ frames [(x53, []); (x70, hb 0x1736563726574); (x58, [])], 4)
  /\ client_relay 9 false (frames [(x51, hb 0x173656c656374203100)]) = ([], 0).
Proof. split; vm_compute; reflexivity. Qed.

(** what readStartupPacket accepts, for ALL streams: 4 length bytes, one of the four request codes of Gen/WireConsts.v
    (SSLRequest / CancelRequest / GSSENCRequest only with their exact length field), and exactly as many further bytes
    as the length field declares *)
Theorem C12_pg_startup_accepts : forall s p rest, read_startup s = Ok (p, rest) ->
  exists lb code d : bytes,
    s = lb ++ code ++ d ++ rest /\ length lb = 4%nat /\ length code = 4%nat /\
    p = mk_packet PG_WITHOUT_MESSAGE_TYPE lb (code ++ d) /\
    (code = PG_STARTUP_REQUEST \/ lb ++ code = PG_SSL_REQUEST_HEADER \/ lb ++ code = PG_CANCEL_REQUEST_HEADER
     \/ lb ++ code = PG_GSSENC_REQUEST_HEADER) /\
    Z.of_nat (length (code ++ d)) = data_length lb.
Proof. exact pg_startup_accepts. Qed.
Print Assumptions C12_pg_startup_accepts.

(** any other first eight bytes (a general message, another request code, a fixed request with another length) are
    refused with ErrUnsupportedPacketType, whatever follows *)
Theorem C12_pg_startup_rejects : forall h s1 : bytes, length h = 8%nat ->
  skipn 4 h <> PG_STARTUP_REQUEST -> h <> PG_SSL_REQUEST_HEADER -> h <> PG_CANCEL_REQUEST_HEADER -> h <> PG_GSSENC_REQUEST_HEADER ->
  read_startup (h ++ s1) = Err E_UNSUPPORTED.
Proof. exact pg_startup_rejects. Qed.
Print Assumptions C12_pg_startup_rejects.

Example C12_pg_startup_classes_nonvacuous :
  (exists p, read_startup (PG_CANCEL_REQUEST_HEADER ++ hb 0x10102030405060708 ++ hb 0x15300000004) = Ok (p, hb 0x15300000004))
  /\ read_startup (hb 0x1510000000d73656c656374203100) = Err E_UNSUPPORTED           (* a Query first *)
  /\ read_startup (hb 0x10000000904d2162f00) = Err E_UNSUPPORTED                     (* SSLRequest code, length 9 *)
  /\ read_startup (hb 0x10000000800020000) = Err E_UNSUPPORTED.                      (* protocol 2.0 *)
Proof. split; [eexists; vm_compute; reflexivity|]. repeat split; vm_compute; reflexivity. Qed.

(** the first answer of the database (one byte 'S' / 'N' after an SSLRequest, otherwise a message) is forwarded as read *)
Theorem C12_pg_db_first_identity : forall s sent rest,
  db_first s = Ok (sent, rest) -> hd_byte s <> PG_WITHOUT_MESSAGE_TYPE -> sent ++ rest = s.
Proof. exact pg_db_first_identity. Qed.
Print Assumptions C12_pg_db_first_identity.

Example C12_pg_db_first_nonvacuous :
  db_first (hb 0x14e) = Ok (hb 0x14e, []) /\ db_first (hb 0x153160301) = Ok (hb 0x153, hb 0x1160301)
  /\ db_first (hb 0x152000000080000000055) = Ok (hb 0x1520000000800000000, hb 0x155).
Proof. repeat split; vm_compute; reflexivity. Qed.
