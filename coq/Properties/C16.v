(** C16 — Literal values from statements never appear in logs nor in the redacted form of a statement.
    Only statements, closed by [exact], their assumptions, and non-vacuity examples.

    Trees are generic labelled trees over the node schema regenerated from sqlparser on every run
    (Gen/SqlSchema.v); [norm] is the walk HandleRawSQLQuery / RedactSQLQuery run (sqlparser.Redact);
    [reach t u]: Walk started at t visits u.  Which literal positions the grammar has, and how a tree is
    printed, is the parser's business: that part is covered by the marker oracle on the real parser only. *)
From Coq Require Import List NArith Bool String.
From Acra Require Import Lib.Bytes Gen.SqlSchema Model.SqlRedact Proofs.SqlRedact.
From Acra Require Import Gen.CensorLogSites Model.CensorLog Proofs.CensorLog.
Import ListNotations.
Local Open Scope N_scope.

(** Finite part, stated over the regenerated enumeration: SCHEMA lists every sqlparser node type (a type with
    a walkSubtree method); for each of them every SQLNode-typed field is handed to Walk, except the four
    type-parameter fields (TYPE_PARAMETER_FIELDS).  Checked by computation over SCHEMA, lifted to In. *)
Theorem C16_walk_visits_all_children :
  forall t : ntype, In t SCHEMA ->
  forall (f : N) (name : string), In (f, name) (t_fields t) -> type_param (t_name t) name = false ->
  In f (t_walk t).
Proof. exact walk_visits_all_children. Qed.
Print Assumptions C16_walk_visits_all_children.

(** hence Walk reaches every node of every schema-typed tree (all trees) *)
Theorem C16_walk_reaches_every_node : forall t u : tree, wf t -> desc t u -> reach t u.
Proof. exact walk_reaches_every_node. Qed.
Print Assumptions C16_walk_reaches_every_node.

(** The visit functions never cut the walk: for every node type, in both visit functions (WalkStatement,
    WalkSelect), whatever convertComparison did to the node (replaced its right operand by a list bind variable, or
    left it alone), the value the visit function returns to Walk is "continue into the children" — or the subtree
    is handed to WalkSelect, which continues.  Computed over the tables of Gen/SqlSchema.v that are read from the
    return statements of the visit functions on every run (VISIT_STATEMENT, VISIT_SELECT, CMP_REPORTS_...); a
    visit function that returns false above children it has not converted makes this theorem (and the next but
    one, which rests on it) stop building. *)
Theorem C16_visit_functions_never_cut_the_walk :
  forall (sel : bool) (ty : N) (replaced : bool), model_goes_below sel ty replaced = true.
Proof. exact visit_never_cuts_walk. Qed.
Print Assumptions C16_visit_functions_never_cut_the_walk.

(** ... and that reading of the tables is what the compiled package does: on every probe tree (a sentinel literal
    below a comparison with a replaced / an untouched right operand, below a Select, a ParenExpr, an SQLVal, inside
    a DELETE and inside a SELECT) the real walk went below the node exactly when the model says so. *)
Theorem C16_visit_probe_agrees :
  VISIT_PROBE <> [] /\
  forall (sel : bool) (ty : N) (h obs : bool), In (sel, ty, h, obs) VISIT_PROBE -> model_goes_below sel ty h = obs.
Proof. exact visit_probe_agrees. Qed.
Print Assumptions C16_visit_probe_agrees.

(** ALL trees, all walk modes, all normalizer states (counter, reserved names, dedup table), every prefix:
    after the walk no node that Walk reaches is an SQLVal of a literal ValType.  [norm] goes below a node only
    when the regenerated tables say that the visit function returns kontinue = true for it, so the proof rests on
    [visit_never_cuts_walk] (above), on [sqlval_converted] (both visit functions convert an SQLVal) and on the
    finite check [all_literals_converted] over the regenerated ValType enumeration and sqlToBindvar table: if a
    literal ValType is not converted, or a visit function stops above unvisited children on the tree under /repo,
    this theorem no longer builds. *)
Theorem C16_normalize_leaves_no_literal :
  forall (prefix : bytes) (sel : bool) (st : nst) (t u : tree),
  reach (snd (norm prefix sel st t)) u -> literal_node u = false.
Proof. exact normalize_leaves_no_literal. Qed.
Print Assumptions C16_normalize_leaves_no_literal.

(** Partial with respect to the property text: it speaks about literals that the parser stores as SQLVal
    nodes.  Literals the AST keeps in plain string fields (GroupConcatExpr.Separator, ShowFilter.Like,
    ColumnType.EnumValues) are outside the tree: known finding `literal-in-text-field`, see below. *)
Theorem C16_redacted_tree_has_no_literal_partial :
  forall (t u : tree), wf (redact VALUE_MASK t) -> desc (redact VALUE_MASK t) u -> literal_node u = false.
Proof.
  intros t u Hwf Hd. eapply redact_leaves_no_literal. apply walk_reaches_every_node; eassumption.
Qed.
Print Assumptions C16_redacted_tree_has_no_literal_partial.

(** the redacted tree is the statement's tree modulo literal leaves (and all-value IN lists) — all trees *)
Theorem C16_shape_preserved :
  forall (prefix : bytes) (sel : bool) (st : nst) (t : tree), shape_rel t (snd (norm prefix sel st t)).
Proof. exact shape_preserved. Qed.
Print Assumptions C16_shape_preserved.

(** firewall: every configuration (handler list, ignore_parse_error, parse_errors_log) — no log line
    carries a statement that did not parse; it reaches a capture file only if the operator configured one *)
Theorem C16_unparsed_never_logged :
  forall cfg : censor_cfg, forallb quiet (c_logs (censor_handle cfg None)) = true.
Proof. exact unparsed_never_logged. Qed.
Print Assumptions C16_unparsed_never_logged.

Theorem C16_unparsed_captured_only_if_configured :
  forall cfg : censor_cfg, In TRaw (c_captured (censor_handle cfg None)) -> cfg_unparsed_writer cfg = true.
Proof. exact unparsed_captured_only_if_configured. Qed.
Print Assumptions C16_unparsed_captured_only_if_configured.

(** firewall: a parsed statement is logged in its redacted form only *)
Theorem C16_parsed_logged_redacted_only :
  forall (cfg : censor_cfg) (t : tree) (e : logev),
  In e (c_logs (censor_handle cfg (Some t))) ->
  l_text e = TEmpty \/ l_text e = TPrinted (redact VALUE_MASK t).
Proof. exact parsed_logged_redacted_only. Qed.
Print Assumptions C16_parsed_logged_redacted_only.

(** ---------- the firewall's log calls as they stand in the source (Gen/CensorLogSites.v) ----------
    The three theorems above speak about a hand-written model of HandleQuery.  The following ones speak about the
    model of Model/CensorLog.v, which takes from tables regenerated by go/ast on every run WHAT each log call of
    acra-censor_implementation.go receives: for every call of HandleQuery the branch it stands in (parse error
    ignored / denied, capture handler, ignore handler checked / matched, allow-deny handler checked / denied /
    allowed, fall-through) and which of HandleQuery's values each argument is (the raw statement, the normalized
    text, the redacted text, the parsed statement), and for logAllowedQuery / logDeniedQuery their guarded clauses
    with level, format and arguments of each log call.

    Static reading — every log call reachable from HandleQuery, each of its arguments and field values resolved
    through the helper's parameter to HandleQuery's values, whatever the guards: it is nothing, the redacted text, or
    the parsed statement printed with %T.  Finite check over the regenerated tables lifted by forallb_forall: a log
    call that is handed rawQuery or normalizedQuery anywhere (the ignore branch included) stops the build. *)
Theorem C16_no_log_call_receives_the_statement :
  forall (c : ccall) (s : clogsite) (src : csrc) (type_only : bool),
  In c CENSOR_HANDLE_QUERY -> In (s, src, type_only) (resolved_args c) ->
  src = CS_none \/ src = CS_redacted \/ (src = CS_parsed /\ type_only = true).
Proof. exact no_log_call_receives_statement. Qed.
Print Assumptions C16_no_log_call_receives_the_statement.

(** the tables were understood: no call in a branch the reader could not name, no guard or argument it could not
    read, every helper found with the right arity, CheckQuery calls in the branches where the model runs them, and
    the only other call that receives something derived from the statement is the parser *)
Theorem C16_censor_sites_understood : tables_understood = true.
Proof. exact tables_understood_ok. Qed.
Print Assumptions C16_censor_sites_understood.

(** the handlers' own log lines (allowall, deny, denyall ... CheckQuery) have no argument derived from their
    parameters (the statement text, the parsed statement) *)
Theorem C16_handlers_log_no_argument :
  forall x : string * clogsite, In x CENSOR_HANDLER_SITES -> ls_args (snd x) = [].
Proof. exact handlers_log_no_argument. Qed.
Print Assumptions C16_handlers_log_no_argument.

(** Dynamic reading — EVERY configuration (any handler chain with any verdicts: capture, ignore matching or not,
    allow / deny continuing, stopping or denying; ignore_parse_error on / off; parse_errors_log on / off), a
    statement that parsed or did not: every log line of the run carries the redacted text of the statement or no
    text of it.  Induction over the handler chain; the base is a finite check over the branches of the regenerated
    table with the helpers' guards evaluated. *)
Theorem C16_firewall_logs_redacted_only :
  forall (cfg : censor_cfg) (parsed : option tree) (e : slogev),
  In e (censor_logs cfg parsed) ->
  sl_text e = TEmpty \/ exists t : tree, parsed = Some t /\ sl_text e = TPrinted (redact VALUE_MASK t).
Proof. exact firewall_logs_redacted_only. Qed.
Print Assumptions C16_firewall_logs_redacted_only.

Theorem C16_firewall_never_logs_unparsed :
  forall (cfg : censor_cfg) (e : slogev), In e (censor_logs cfg None) -> sl_text e = TEmpty.
Proof. exact firewall_never_logs_unparsed. Qed.
Print Assumptions C16_firewall_never_logs_unparsed.

(** ... and the redacted text logged is the print of a tree in which no node Walk reaches is a literal (composition
    with C16_normalize_leaves_no_literal) *)
Theorem C16_firewall_log_text_has_no_literal :
  forall (cfg : censor_cfg) (t : tree) (e : slogev), In e (censor_logs cfg (Some t)) ->
  sl_text e = TEmpty \/
  exists r : tree, sl_text e = TPrinted r /\ forall u : tree, reach r u -> literal_node u = false.
Proof.
  intros cfg t e H. destruct (firewall_logs_redacted_only cfg (Some t) e H) as [He|[t' [Ht He]]]; [left; exact He|].
  right. exists (redact VALUE_MASK t'). split; [exact He|]. intros u Hu. eapply redact_leaves_no_literal; exact Hu.
Qed.
Print Assumptions C16_firewall_log_text_has_no_literal.

(** what reaches a file: the capture handler gets the redacted text (or nothing); a statement's raw text is written
    only when it did not parse and the operator configured parse_errors_log *)
Theorem C16_firewall_captures_redacted_only :
  forall (cfg : censor_cfg) (p : bool) (k : tkind),
  In k (ko_captured (censor_handle_k cfg p)) ->
  safe_kind k = true \/ (p = false /\ cfg_unparsed_writer cfg = true).
Proof. exact firewall_captures_redacted_only. Qed.
Print Assumptions C16_firewall_captures_redacted_only.

(** proxies' debug line, both parser modes; the parser's own line for a partially parsed DDL *)
Theorem C16_proxy_never_logs_unparsed : forall m : pmode, forallb quiet (proxy_debug_log m None) = true.
Proof. exact proxy_never_logs_unparsed. Qed.
Print Assumptions C16_proxy_never_logs_unparsed.

Theorem C16_proxy_logs_redacted_only :
  forall (m : pmode) (t : tree) (e : logev), In e (proxy_debug_log m (Some t)) ->
  l_text e = TPrinted (redact VALUE_MASK t).
Proof. exact proxy_logs_redacted_only. Qed.
Print Assumptions C16_proxy_logs_redacted_only.

Theorem C16_partial_ddl_not_logged : forallb quiet partial_ddl_log = true.
Proof. exact partial_ddl_not_logged. Qed.
Print Assumptions C16_partial_ddl_not_logged.

(** known finding (class literal-in-text-field): the statement "every literal of a statement is an SQLVal node of
    its tree" is refuted by the schema itself — the regenerated list of plain text fields contains the
    separator of GROUP_CONCAT and the pattern of SHOW ... LIKE. *)
Theorem C16_every_literal_is_a_node_refuted :
  exists tn fs f, In (tn, fs) TEXT_FIELDS /\ In f fs /\
    ((tn = "GroupConcatExpr" /\ f = "Separator") \/ (tn = "ShowFilter" /\ f = "Like"))%string.
Proof.
  exists "GroupConcatExpr"%string, ["Distinct"; "Separator"]%string, "Separator"%string.
  split; [vm_compute; tauto|]. split; [cbn; tauto|]. left. split; reflexivity.
Qed.
Print Assumptions C16_every_literal_is_a_node_refuted.

(** ---------- non-vacuity ---------- *)
(** a Select whose Where field holds a hex literal: Walk reaches it, it is a literal, redaction replaces it *)
Definition ex_leaf : tree := Node T_SQLVal (AVal VT_HexVal (bytes_of_string "4d41524b") true) FNil.
Definition ex_tree : tree := Node T_Select ANone (FCons 3 ex_leaf FNil).

Example ex_reach_literal : reach ex_tree ex_leaf /\ literal_node ex_leaf = true.
Proof.
  split; [|vm_compute; reflexivity].
  apply (reach_kid T_Select ANone (FCons 3 ex_leaf FNil) 3 ex_leaf ex_leaf); [vm_compute; reflexivity | apply fin_here | apply reach_self].
Qed.

Example ex_redacted :
  redact VALUE_MASK ex_tree =
  Node T_Select ANone (FCons 3 (Node T_SQLVal (AVal VT_ValArg (bytes_of_string ":replaced1") true) FNil) FNil).
Proof. vm_compute. reflexivity. Qed.

Example ex_wf : wf ex_tree /\ wf (redact VALUE_MASK ex_tree).
Proof.
  split.
  - apply wf_node. apply wf_cons; [vm_compute; reflexivity | apply wf_node; apply wf_nil | apply wf_nil].
  - rewrite ex_redacted. apply wf_node. apply wf_cons; [vm_compute; reflexivity | apply wf_node; apply wf_nil | apply wf_nil].
Qed.

(** an integer that strconv rejects (ok = false) is replaced as well; an IN list becomes one list argument *)
Example ex_bad_int_and_in_list :
  let big := Node T_SQLVal (AVal VT_IntVal (bytes_of_string "99999999999999999999") false) FNil in
  let tup := Node T_ValTuple ANone (FCons 0 big (FCons 0 ex_leaf FNil)) in
  let cmp := Node T_ComparisonExpr (AOp true) (FCons F_ComparisonExpr_Right tup FNil) in
  redact VALUE_MASK (Node T_Select ANone (FCons 3 big (FCons 3 cmp FNil))) =
  Node T_Select ANone
    (FCons 3 (Node T_SQLVal (AVal VT_ValArg (bytes_of_string ":replaced1") false) FNil)
    (FCons 3 (Node T_ComparisonExpr (AOp true)
       (FCons F_ComparisonExpr_Right (Node T_ListArg (AList (bytes_of_string "::replaced2")) FNil) FNil)) FNil)).
Proof. vm_compute. reflexivity. Qed.

(** a literal in the LEFT operand of an IN whose list becomes one list bind variable is replaced as well, in a
    DELETE (WalkStatement) and in a SELECT (WalkSelect): plain, and as a function argument below the comparison *)
Definition ex_in_cmp (left : tree) : tree :=
  Node T_ComparisonExpr (AOp true)
    (FCons 0 left
    (FCons F_ComparisonExpr_Right
       (Node T_ValTuple ANone (FCons 0 (Node T_SQLVal (AVal VT_StrVal (bytes_of_string "a") true) FNil) FNil)) FNil)).
Definition ex_marker : tree := Node T_SQLVal (AVal VT_StrVal (bytes_of_string "MARKER") true) FNil.
Definition id_of_ex (name : string) : N :=
  match find (fun t => String.eqb (t_name t) name) SCHEMA with Some t => t_id t | None => 1000000 end.
Definition T_Delete_ex : N := id_of_ex "Delete".
Definition T_FuncExpr_ex : N := id_of_ex "FuncExpr".

Example ex_left_of_in_statement :
  redact VALUE_MASK (Node T_Delete_ex ANone (FCons 4 (ex_in_cmp ex_marker) FNil)) =
  Node T_Delete_ex ANone (FCons 4
    (Node T_ComparisonExpr (AOp true)
       (FCons 0 (Node T_SQLVal (AVal VT_ValArg (bytes_of_string ":replaced2") true) FNil)
       (FCons F_ComparisonExpr_Right (Node T_ListArg (AList (bytes_of_string "::replaced1")) FNil) FNil))) FNil).
Proof. vm_compute. reflexivity. Qed.

Example ex_left_of_in_select :
  redact VALUE_MASK (Node T_Select ANone (FCons 3 (ex_in_cmp (Node T_FuncExpr_ex ANone (FCons 2 ex_marker FNil))) FNil)) =
  Node T_Select ANone (FCons 3
    (Node T_ComparisonExpr (AOp true)
       (FCons 0 (Node T_FuncExpr_ex ANone (FCons 2 (Node T_SQLVal (AVal VT_ValArg (bytes_of_string ":replaced2") true) FNil) FNil))
       (FCons F_ComparisonExpr_Right (Node T_ListArg (AList (bytes_of_string "::replaced1")) FNil) FNil))) FNil).
Proof. vm_compute. reflexivity. Qed.

(** the tables are not trivial: WalkStatement hands a Select over to WalkSelect and itself returns false there *)
Example ex_visit_tables :
  dispatch false T_Select = (true, VISIT_SELECT_DEFAULT) /\ vc_return (clause_of false T_Select) = VR_stop /\
  vc_action (snd (dispatch false T_ComparisonExpr)) = VA_convert_comparison /\
  vc_action (snd (dispatch true T_SQLVal)) = VA_convert_val_dedup.
Proof. vm_compute. repeat split; reflexivity. Qed.

(** the table-driven model runs the branches the seeded class needs: a statement on the ignore list is logged at
    info level in its redacted form; an unparseable statement on the ignore list (ignore_parse_error on) yields the
    parse warning and the "can't be shown" line, the raw text only goes to the parse_errors_log file; a denied
    statement yields the error line with the redacted text and the debug line; the tables are not empty *)
Example ex_sites_ignore_match :
  map (fun e => (ke_level e, ke_kind e)) (ko_logs (censor_handle_k (mkCfg [HCapture; HIgnore true; HCheck VDeny] false true) true)) =
  [(CL_info, KRedacted)].
Proof. vm_compute. reflexivity. Qed.

Example ex_sites_ignore_unparsed :
  let o := censor_handle_k (mkCfg [HIgnore true] true true) false in
  map (fun e => (ke_level e, ke_kind e)) (ko_logs o) = [(CL_warning, KEmpty); (CL_info, KEmpty)] /\
  ko_captured o = [KRaw] /\ ko_denied o = false.
Proof. vm_compute. repeat split; reflexivity. Qed.

Example ex_sites_denied :
  map (fun e => (ke_level e, ke_kind e)) (ko_logs (censor_handle_k (mkCfg [HIgnore false; HCheck VDeny] false false) true)) =
  [(CL_error, KRedacted); (CL_debug, KEmpty)].
Proof. vm_compute. reflexivity. Qed.

Example ex_sites_tables_not_empty :
  (10 <=? N.of_nat (length CENSOR_HANDLE_QUERY)) = true /\ (6 <=? N.of_nat (length all_resolved_args)) = true /\
  existsb (fun c => match call_branch c with CB_ignore_match => true | _ => false end) CENSOR_HANDLE_QUERY = true.
Proof. vm_compute. repeat split; reflexivity. Qed.

(** the log theorems are about real configurations: a denying firewall logs the redacted text, an
    unparsed statement with ignore_parse_error goes through the handlers with nothing to show *)
Example ex_denied_logs :
  c_logs (censor_handle (mkCfg [HCapture; HCheck VDeny] false true) (Some ex_tree)) =
  [mkL LError MDenied (TPrinted (redact VALUE_MASK ex_tree)); mkL LDebug MDeniedBy TEmpty].
Proof. vm_compute. reflexivity. Qed.

Example ex_unparsed_ignored :
  censor_handle (mkCfg [HCapture; HCheck VAllowStop] true true) None =
  mkC [mkL LWarning MUnparsedIgnored TEmpty; mkL LInfo MAllowedHidden TEmpty] false [TRaw; TEmpty].
Proof. vm_compute. reflexivity. Qed.
