(** C16 — Literal values from statements never appear in logs nor in the redacted form of a statement.
    Only statements, closed by [exact], their assumptions, and non-vacuity examples.

    Trees are generic labelled trees over the node schema regenerated from sqlparser on every run
    (Gen/SqlSchema.v); [norm] is the walk HandleRawSQLQuery / RedactSQLQuery run (sqlparser.Redact);
    [reach t u]: Walk started at t visits u.  Which literal positions the grammar has, and how a tree is
    printed, is the parser's business: that part is covered by the marker oracle on the real parser only. *)
From Coq Require Import List NArith Bool String.
From Acra Require Import Lib.Bytes Gen.SqlSchema Model.SqlRedact Proofs.SqlRedact.
Import ListNotations.
Local Open Scope N_scope.

(** Finite part, stated over the regenerated enumeration: SCHEMA lists every sqlparser node type (a type with
    a walkSubtree method); for each of them every SQLNode-typed field is handed to Walk, except the four
    type-parameter fields (TYPE_PARAMETER_FIELDS).  Checked by computation over SCHEMA, lifted to In. *)
Theorem C16_walk_visits_all_children :
  forall t : ntype, In t SCHEMA ->
  forall (f : N) (name : string), In (f, name) (t_fields t) -> type_param (t_name t) name = false ->
  In f (t_walk t).
Proof. exact walk_visits_all_children. Qed.
Print Assumptions C16_walk_visits_all_children.

(** hence Walk reaches every node of every schema-typed tree (all trees) *)
Theorem C16_walk_reaches_every_node : forall t u : tree, wf t -> desc t u -> reach t u.
Proof. exact walk_reaches_every_node. Qed.
Print Assumptions C16_walk_reaches_every_node.

(** ALL trees, all walk modes, all normalizer states (counter, reserved names, dedup table), every prefix:
    after the walk no node that Walk reaches is an SQLVal of a literal ValType.  Rests on the finite check
    [all_literals_converted] over the regenerated ValType enumeration and sqlToBindvar table: if a literal
    ValType is not converted on the tree under /repo, this theorem no longer builds. *)
Theorem C16_normalize_leaves_no_literal :
  forall (prefix : bytes) (sel : bool) (st : nst) (t u : tree),
  reach (snd (norm prefix sel st t)) u -> literal_node u = false.
Proof. exact normalize_leaves_no_literal. Qed.
Print Assumptions C16_normalize_leaves_no_literal.

(** Partial with respect to the property text: it speaks about literals that the parser stores as SQLVal
    nodes.  Literals the AST keeps in plain string fields (GroupConcatExpr.Separator, ShowFilter.Like,
    ColumnType.EnumValues) are outside the tree: known finding `literal-in-text-field`, see below. *)
Theorem C16_redacted_tree_has_no_literal_partial :
  forall (t u : tree), wf (redact VALUE_MASK t) -> desc (redact VALUE_MASK t) u -> literal_node u = false.
Proof.
  intros t u Hwf Hd. eapply redact_leaves_no_literal. apply walk_reaches_every_node; eassumption.
Qed.
Print Assumptions C16_redacted_tree_has_no_literal_partial.

(** the redacted tree is the statement's tree modulo literal leaves (and all-value IN lists) — all trees *)
Theorem C16_shape_preserved :
  forall (prefix : bytes) (sel : bool) (st : nst) (t : tree), shape_rel t (snd (norm prefix sel st t)).
Proof. exact shape_preserved. Qed.
Print Assumptions C16_shape_preserved.

(** firewall: every configuration (handler list, ignore_parse_error, parse_errors_log) — no log line
    carries a statement that did not parse; it reaches a capture file only if the operator configured one *)
Theorem C16_unparsed_never_logged :
  forall cfg : censor_cfg, forallb quiet (c_logs (censor_handle cfg None)) = true.
Proof. exact unparsed_never_logged. Qed.
Print Assumptions C16_unparsed_never_logged.

Theorem C16_unparsed_captured_only_if_configured :
  forall cfg : censor_cfg, In TRaw (c_captured (censor_handle cfg None)) -> cfg_unparsed_writer cfg = true.
Proof. exact unparsed_captured_only_if_configured. Qed.
Print Assumptions C16_unparsed_captured_only_if_configured.

(** firewall: a parsed statement is logged in its redacted form only *)
Theorem C16_parsed_logged_redacted_only :
  forall (cfg : censor_cfg) (t : tree) (e : logev),
  In e (c_logs (censor_handle cfg (Some t))) ->
  l_text e = TEmpty \/ l_text e = TPrinted (redact VALUE_MASK t).
Proof. exact parsed_logged_redacted_only. Qed.
Print Assumptions C16_parsed_logged_redacted_only.

(** proxies' debug line, both parser modes; the parser's own line for a partially parsed DDL *)
Theorem C16_proxy_never_logs_unparsed : forall m : pmode, forallb quiet (proxy_debug_log m None) = true.
Proof. exact proxy_never_logs_unparsed. Qed.
Print Assumptions C16_proxy_never_logs_unparsed.

Theorem C16_proxy_logs_redacted_only :
  forall (m : pmode) (t : tree) (e : logev), In e (proxy_debug_log m (Some t)) ->
  l_text e = TPrinted (redact VALUE_MASK t).
Proof. exact proxy_logs_redacted_only. Qed.
Print Assumptions C16_proxy_logs_redacted_only.

Theorem C16_partial_ddl_not_logged : forallb quiet partial_ddl_log = true.
Proof. exact partial_ddl_not_logged. Qed.
Print Assumptions C16_partial_ddl_not_logged.

(** known finding (class literal-in-text-field): the statement "every literal of a statement is an SQLVal node of
    its tree" is refuted by the schema itself — the regenerated list of plain text fields contains the
    separator of GROUP_CONCAT and the pattern of SHOW ... LIKE. *)
Theorem C16_every_literal_is_a_node_refuted :
  exists tn fs f, In (tn, fs) TEXT_FIELDS /\ In f fs /\
    ((tn = "GroupConcatExpr" /\ f = "Separator") \/ (tn = "ShowFilter" /\ f = "Like"))%string.
Proof.
  exists "GroupConcatExpr"%string, ["Distinct"; "Separator"]%string, "Separator"%string.
  split; [vm_compute; tauto|]. split; [cbn; tauto|]. left. split; reflexivity.
Qed.
Print Assumptions C16_every_literal_is_a_node_refuted.

(** ---------- non-vacuity ---------- *)
(** a Select whose Where field holds a hex literal: Walk reaches it, it is a literal, redaction replaces it *)
Definition ex_leaf : tree := Node T_SQLVal (AVal VT_HexVal (bytes_of_string "4d41524b") true) FNil.
Definition ex_tree : tree := Node T_Select ANone (FCons 3 ex_leaf FNil).

Example ex_reach_literal : reach ex_tree ex_leaf /\ literal_node ex_leaf = true.
Proof.
  split; [|vm_compute; reflexivity].
  apply (reach_kid T_Select ANone (FCons 3 ex_leaf FNil) 3 ex_leaf ex_leaf); [vm_compute; reflexivity | apply fin_here | apply reach_self].
Qed.

Example ex_redacted :
  redact VALUE_MASK ex_tree =
  Node T_Select ANone (FCons 3 (Node T_SQLVal (AVal VT_ValArg (bytes_of_string ":replaced1") true) FNil) FNil).
Proof. vm_compute. reflexivity. Qed.

Example ex_wf : wf ex_tree /\ wf (redact VALUE_MASK ex_tree).
Proof.
  split.
  - apply wf_node. apply wf_cons; [vm_compute; reflexivity | apply wf_node; apply wf_nil | apply wf_nil].
  - rewrite ex_redacted. apply wf_node. apply wf_cons; [vm_compute; reflexivity | apply wf_node; apply wf_nil | apply wf_nil].
Qed.

(** an integer that strconv rejects (ok = false) is replaced as well; an IN list becomes one list argument *)
Example ex_bad_int_and_in_list :
  let big := Node T_SQLVal (AVal VT_IntVal (bytes_of_string "99999999999999999999") false) FNil in
  let tup := Node T_ValTuple ANone (FCons 0 big (FCons 0 ex_leaf FNil)) in
  let cmp := Node T_ComparisonExpr (AOp true) (FCons F_ComparisonExpr_Right tup FNil) in
  redact VALUE_MASK (Node T_Select ANone (FCons 3 big (FCons 3 cmp FNil))) =
  Node T_Select ANone
    (FCons 3 (Node T_SQLVal (AVal VT_ValArg (bytes_of_string ":replaced1") false) FNil)
    (FCons 3 (Node T_ComparisonExpr (AOp true)
       (FCons F_ComparisonExpr_Right (Node T_ListArg (AList (bytes_of_string "::replaced2")) FNil) FNil)) FNil)).
Proof. vm_compute. reflexivity. Qed.

(** the log theorems are about real configurations: a denying firewall logs the redacted text, an
    unparsed statement with ignore_parse_error goes through the handlers with nothing to show *)
Example ex_denied_logs :
  c_logs (censor_handle (mkCfg [HCapture; HCheck VDeny] false true) (Some ex_tree)) =
  [mkL LError MDenied (TPrinted (redact VALUE_MASK ex_tree)); mkL LDebug MDeniedBy TEmpty].
Proof. vm_compute. reflexivity. Qed.

Example ex_unparsed_ignored :
  censor_handle (mkCfg [HCapture; HCheck VAllowStop] true true) None =
  mkC [mkL LWarning MUnparsedIgnored TEmpty; mkL LInfo MAllowedHidden TEmpty] false [TRaw; TEmpty].
Proof. vm_compute. reflexivity. Qed.
