(** C15, legacy part — RAW (container-less) poison records: the AcraStruct form under a poison key pair and the
    AcraBlock form under a symmetric poison key, anywhere inside a column value, read through the detector the
    proxies build: callbacks [OldContainerDetectorWrapper ; PoisonRecordDetector ; DecryptHandler(processor)] behind
    OldContainerDetectorWrapper.OnColumn (container pass, then ProcessAcraStructs, then ProcessAcraBlocks).
    Only statements, closed by [exact], and their assumptions.  [C] ranges over every crypto instance; [Correct C] is
    needed only for the creation theorems.
    Vocabulary: events as in C15 ([Callback] = the callback storage's Call() ran; the final event of a column is the
    delivery or the abort); [transparent cb] = a callback that hands every container back and does nothing else (the
    wrapper's own OnCryptoEnvelope); [raw_as_at v] / [raw_ab_at v] = the raw scanner finds the envelope [v] whatever
    follows it; [no_container col] = no tag position of [col] yields a container (C01_old); [quiet_tag tag p t] = no
    occurrence of [tag] starts inside the prefix [p] of [p ++ t] (C01_old). *)
From Acra Require Import Lib.Bytes Lib.Outcome Lib.GoSlice Crypto.Interface Gen.Consts Gen.MaskConsts
  Model.Envelope Model.EnvelopeOld Model.Masking Model.Poison Model.Bytea Model.LegacyChain
  Proofs.Envelope Proofs.EnvelopeHandlers Proofs.Scanner Proofs.Containers Proofs.EnvelopeOld Proofs.Poison
  Proofs.Masking Proofs.Bytea Proofs.LegacyChain.

(** ** raw poison records exist under every poison-key history: the envelope inside the record
    poison.CreatePoisonRecord / CreateSymmetricPoisonRecord make (= what older versions stored), which the raw scanners
    find and which the poison keys open - key anywhere in the rotated list *)
Theorem C15_legacy_raw_record_asymmetric :
  forall (C : crypto), Correct C ->
  forall (pk : poison_keys) (tape : list bytes) (data sb : bytes) (before after : list bytes),
  data <> [] -> (N.of_nat (length data) < MAXMSG)%N -> good_as_tape tape -> length sb = SEED_LEN ->
  pk_privs pk = before ++ priv_of C sb :: after ->
  (forall v, Forall (fun p => exists e, as_decrypt C v p [] = Err e) before) ->
  exists v, as_create C tape data (pub_of C sb) [] = Ok v /\
    create_poison_record C (pub_of C sb) data tape = Ok (sc_layout v ENVELOPE_ID_ACRASTRUCT) /\
    raw_as_at v /\ v <> [] /\ poison_opens C pk (sc_layout v ENVELOPE_ID_ACRASTRUCT) = Ok data.
Proof. exact raw_poison_record_asymmetric. Qed.
Print Assumptions C15_legacy_raw_record_asymmetric.

Theorem C15_legacy_raw_record_symmetric :
  forall (C : crypto), Correct C ->
  forall (pk : poison_keys) (tape : list bytes) (data key : bytes) (before after : list bytes),
  data <> [] -> (N.of_nat (length data) < MAXMSG)%N -> good_ab_tape tape -> key <> [] ->
  pk_syms pk = before ++ key :: after ->
  (forall ek, Forall (fun k => bytes_eqb (ab_key_id k []) (ab_key_id key []) = false
                               \/ cell_decrypt C k [] ek = None) before) ->
  exists v, ab_create C tape data key [] = Ok v /\
    create_sym_poison_record C key data tape = Ok (sc_layout v ENVELOPE_ID_ACRABLOCK) /\
    raw_ab_at v /\ AB_TAG_SIZE <= length v /\ v <> [] /\ poison_opens C pk (sc_layout v ENVELOPE_ID_ACRABLOCK) = Ok data.
Proof. exact raw_poison_record_symmetric. Qed.
Print Assumptions C15_legacy_raw_record_symmetric.

(** ** detection, AcraStruct form.  Any raw envelope a poison key opens, after ANY prefix in which no occurrence of
    the 8-byte tag starts, before ANY suffix, in a column in which the container pass finds nothing, with ANY callbacks
    after the detector (decryptor, masking, in any order, for any setting and reader) and any transparent callbacks
    before it: the callbacks run *)
Theorem C15_legacy_raw_as_detected :
  forall (C : crypto) (pre : list ecb) (cb_err : bool) (pk : poison_keys) (post : list ecb) (p v s d : bytes),
  Forall transparent pre ->
  no_container (p ++ v ++ s) -> quiet_tag as_tag p (v ++ s) ->
  starts_with as_tag (v ++ s) = true -> as_candidate (v ++ s) = Some (length v) -> v <> [] ->
  poison_opens C pk (sc_layout v ENVELOPE_ID_ACRASTRUCT) = Ok d ->
  In Callback (fst (on_column_old_ev (pre ++ poison_detector C true cb_err pk :: post) (p ++ v ++ s))).
Proof. exact raw_poison_as_detected. Qed.
Print Assumptions C15_legacy_raw_as_detected.

(** AcraBlock form (symmetric poison key).  ProcessAcraStructs runs first over the whole value (no occurrence of the
    8-byte tag may start before the end of the record); what the callbacks after the detector do with the suffix is
    arbitrary: either the callbacks ran, or the column ended with an error and nothing is delivered *)
Theorem C15_legacy_raw_ab_detected :
  forall (C : crypto) (pre : list ecb) (cb_err : bool) (pk : poison_keys) (post : list ecb) (p v s d : bytes),
  Forall transparent pre ->
  no_container (p ++ v ++ s) -> quiet_tag as_tag (p ++ v) s -> quiet_tag ab_tag p (v ++ s) ->
  (forall s', starts_with ab_tag (v ++ s') = true /\ ab_candidate (v ++ s') = Some (length v)) ->
  AB_TAG_SIZE <= length v -> v <> [] ->
  poison_opens C pk (sc_layout v ENVELOPE_ID_ACRABLOCK) = Ok d ->
  let r := on_column_old_ev (pre ++ poison_detector C true cb_err pk :: post) (p ++ v ++ s) in
  In Callback (fst r) \/ (forall x, snd r <> Ok x).
Proof. exact raw_poison_ab_detected. Qed.
Print Assumptions C15_legacy_raw_ab_detected.

(** in the chain the proxies build - for ANY column setting (masked or not), ANY reader, succeeding or failing
    callbacks: the trace is callback runs followed by exactly ONE final event; the callbacks precede the delivery *)
Theorem C15_legacy_raw_as_before_delivery :
  forall (C : crypto) (cb_err : bool) (pk : poison_keys) (s : option mask_setting) (ks : keyset) (p v sfx d : bytes),
  no_container (p ++ v ++ sfx) -> quiet_tag as_tag p (v ++ sfx) ->
  raw_as_at v -> v <> [] -> poison_opens C pk (sc_layout v ENVELOPE_ID_ACRASTRUCT) = Ok d ->
  exists k fin, legacy_column_trace C true cb_err pk s ks (p ++ v ++ sfx) = repeat Callback (S k) ++ [fin] /\ is_final fin.
Proof. exact legacy_raw_as_before_delivery. Qed.
Print Assumptions C15_legacy_raw_as_before_delivery.

Theorem C15_legacy_raw_ab_before_delivery :
  forall (C : crypto) (cb_err : bool) (pk : poison_keys) (s : option mask_setting) (ks : keyset) (p v sfx d : bytes),
  no_container (p ++ v ++ sfx) -> quiet_tag as_tag (p ++ v) sfx -> quiet_tag ab_tag p (v ++ sfx) ->
  raw_ab_at v -> AB_TAG_SIZE <= length v -> v <> [] -> poison_opens C pk (sc_layout v ENVELOPE_ID_ACRABLOCK) = Ok d ->
  exists k fin, legacy_column_trace C true cb_err pk s ks (p ++ v ++ sfx) = repeat Callback k ++ [fin] /\ is_final fin /\
                (k = 0 -> fin = Abort).
Proof. exact legacy_raw_ab_before_delivery. Qed.
Print Assumptions C15_legacy_raw_ab_before_delivery.

(** the container form behind the wrapper: C15_poison_detected carries over *)
Theorem C15_legacy_container_form_detected :
  forall (C : crypto) (cb_err : bool) (pk : poison_keys) (post : list ecb) (p v s : bytes) (id : byte) (inner d : bytes),
  is_envelope id inner v -> poison_opens C pk (v ++ s) = Ok d -> quiet p (v ++ s) ->
  In Callback (fst (on_column_old_ev (lift wrapper_cb :: poison_detector C true cb_err pk :: post) (p ++ v ++ s))).
Proof. exact container_poison_detected_behind_wrapper. Qed.
Print Assumptions C15_legacy_container_form_detected.

(** ** the order of the other callbacks does not matter: callbacks that only hand the container back (the wrapper's
    own, a detector without callbacks) may stand anywhere, be added or removed - events and result stay the same;
    what follows the detector is arbitrary in the detection theorems above *)
Theorem C15_legacy_transparent_callbacks_do_not_matter :
  forall (a pre b : list ecb) (inb : bytes),
  Forall transparent pre -> a ++ b <> [] ->
  on_column_old_ev (a ++ pre ++ b) inb = on_column_old_ev (a ++ b) inb.
Proof. exact transparent_callbacks_do_not_matter. Qed.
Print Assumptions C15_legacy_transparent_callbacks_do_not_matter.

(** only what the callback loop does on one container matters for a column *)
Theorem C15_legacy_chain_extensional :
  forall (cbs1 cbs2 : list ecb) (inb : bytes),
  (forall c, run_callbacks_ev cbs1 c = run_callbacks_ev cbs2 c) -> is_nil cbs1 = is_nil cbs2 ->
  on_column_old_ev cbs1 inb = on_column_old_ev cbs2 inb.
Proof. exact on_column_old_ev_ext. Qed.
Print Assumptions C15_legacy_chain_extensional.

(** ** no false alarm, reduction form (no unforgeability assumed): a callback run on ANY column exhibits bytes which a
    poison key opens - a container at a tag position of the column, or the serialization of a raw candidate cut from
    the column or from what ProcessAcraStructs made of it *)
Theorem C15_legacy_callback_has_witness :
  forall (C : crypto) (has cb_err : bool) (pk : poison_keys) (cbs : list (bytes -> res bytes)) (col : bytes),
  let chain := lift wrapper_cb :: poison_detector C has cb_err pk :: map lift cbs in
  In Callback (fst (on_column_old_ev chain col)) ->
  (exists j n c d, sc_extract (skipn j col) = Ok (n, c) /\ poison_opens C pk c = Ok d) \/
  raw_witness C pk col \/
  (exists out1, snd (process_acrastructs_ev (on_old_envelope_ev ENVELOPE_ID_ACRASTRUCT chain) col) = Ok out1 /\
                raw_witness C pk out1).
Proof. exact legacy_callback_has_witness. Qed.
Print Assumptions C15_legacy_callback_has_witness.

(** every column trace of the real chain, poison or not: callback runs, then the single final event *)
Theorem C15_legacy_column_trace_shape :
  forall (C : crypto) (has cb_err : bool) (pk : poison_keys) (s : option mask_setting) (ks : keyset) (col : bytes),
  exists k fin, legacy_column_trace C has cb_err pk s ks col = repeat Callback k ++ [fin] /\ is_final fin.
Proof. exact legacy_column_trace_shape. Qed.
Print Assumptions C15_legacy_column_trace_shape.

(** detector absent (no callback storage / no callbacks): no event; detector present: the delivered bytes are those
    of the chain without it *)
Theorem C15_legacy_callbacks_off_no_effect :
  forall (C : crypto) (cb_err : bool) (pk : poison_keys) (s : option mask_setting) (ks : keyset) (col : bytes),
  legacy_read_ev C false cb_err pk s ks col = ([], on_column_old (plain_cbs C s ks) col).
Proof. exact legacy_callbacks_off. Qed.
Print Assumptions C15_legacy_callbacks_off_no_effect.

Theorem C15_legacy_detector_transparent :
  forall (C : crypto) (has : bool) (pk : poison_keys) (s : option mask_setting) (ks : keyset) (col : bytes),
  snd (legacy_read_ev C has false pk s ks col) = on_column_old (plain_cbs C s ks) col.
Proof. exact legacy_detector_transparent. Qed.
Print Assumptions C15_legacy_detector_transparent.

(** ** through the subscribers and the row loop: the decoder hands the stored bytes to the wrapper (text format), so
    the events of the column are the wrapper's; callbacks caused by ANY column are events of the row, or the row is
    not delivered at all *)
Theorem C15_legacy_pg_chain_events :
  forall (C : crypto) (has cb_err : bool) (pk : poison_keys) (store : key_store) (cid : bytes)
         (s : option mask_setting) (col : bytes),
  fst (pg_column_ev C has cb_err pk store cid s false (pg_encode_hex col))
  = fst (legacy_read_ev C has cb_err pk s (client_keys store cid) col).
Proof. intros. rewrite pg_column_text. reflexivity. Qed.
Print Assumptions C15_legacy_pg_chain_events.

Theorem C15_legacy_row_callbacks_before_row :
  forall (C : crypto) (has cb_err : bool) (pk : poison_keys) (store : key_store) (cid : bytes)
         (settings : option (list (option mask_setting))) (binary : bool) (cols : list (option bytes)) (k : nat) (d : bytes),
  nth_error cols k = Some (Some d) ->
  In Callback (fst (pg_column_ev C has cb_err pk store cid (setting_for settings k) binary d)) ->
  let R := pg_data_row C has cb_err pk store cid settings binary cols in
  In Callback (fst R) \/ forall x, snd R <> Ok x.
Proof. exact pg_row_callbacks. Qed.
Print Assumptions C15_legacy_row_callbacks_before_row.

(** ** non-vacuity and refutations on the stand-in crypto the harness runs *)
From Acra Require Import Crypto.Stub Proofs.StubCorrect.
Local Open Scope Z_scope.
Definition q_as_tape : list bytes := [repeat_bytes x01 32; repeat_bytes x02 32; repeat_bytes x03 12; repeat_bytes x04 12].
Definition q_ab_tape : list bytes := [repeat_bytes x05 32; repeat_bytes x06 12; repeat_bytes x08 12].
Definition q_old_seed := repeat_bytes x09 32.
Definition q_old_sym := repeat_bytes x0a 32.
(* the record's keys are the ROTATED ones *)
Definition q_pk := Build_poison_keys [priv_of Stub (repeat_bytes x0d 32); priv_of Stub q_old_seed] [repeat_bytes x0e 32; q_old_sym].
Definition q_client := Build_keyset (Some (pub_of Stub (repeat_bytes x0b 32))) [priv_of Stub (repeat_bytes x0b 32)] [repeat_bytes x0c 32] None.
Definition q_data : bytes := [x70; x6f; x69; x73; x6f; x6e].
Definition q_getok (r : res bytes) : bytes := match r with Ok v => v | _ => [] end.
Definition q_raw_as : bytes := Eval vm_compute in q_getok (as_create Stub q_as_tape q_data (pub_of Stub q_old_seed) []).
Definition q_raw_ab : bytes := Eval vm_compute in q_getok (ab_create Stub q_ab_tape q_data q_old_sym []).
Definition q_client_raw : bytes := Eval vm_compute in q_getok (ab_create Stub q_ab_tape q_data (repeat_bytes x0c 32) []).
Definition q_pre : bytes := [x61; x62; x63].
Definition q_pat : bytes := [x78; x78; x78; x78].
Definition q_mask := Build_mask_setting q_pat 2 MASK_SIDE_LEFT ENC_TYPE_STRING.

Example C15_legacy_concrete_detection :
  poison_opens Stub q_pk (sc_layout q_raw_as ENVELOPE_ID_ACRASTRUCT) = Ok q_data /\
  poison_opens Stub q_pk (sc_layout q_raw_ab ENVELOPE_ID_ACRABLOCK) = Ok q_data /\
  (* embedded, plain column *)
  legacy_column_trace Stub true false q_pk None q_client (q_pre ++ q_raw_ab ++ q_pre)
    = [Callback; Deliver (q_pre ++ q_raw_ab ++ q_pre)] /\
  (* in a masked column the record is masked like any envelope nobody can open - AFTER the alarm *)
  legacy_column_trace Stub true false q_pk (Some q_mask) q_client (q_pre ++ q_raw_as)
    = [Callback; Deliver (q_pre ++ q_pat)] /\
  (* failing callbacks: nothing is delivered *)
  legacy_column_trace Stub true true q_pk None q_client (q_pre ++ q_raw_ab) = [Callback; Abort] /\
  (* through the three subscribers, text format, accessing client "c" *)
  pg_column_ev Stub true false q_pk [([x63], q_client)] [x63] None false (pg_encode_hex (q_pre ++ q_raw_ab))
    = ([Callback], Ok (pg_encode_hex (q_pre ++ q_raw_ab))).
Proof. repeat split; vm_compute; reflexivity. Qed.

Definition q_flip_last (b : bytes) : bytes := firstn (length b - 1) b ++ [x00].
Example C15_legacy_concrete_no_alarm :
  legacy_column_trace Stub true false q_pk None q_client (q_pre ++ q_client_raw ++ q_pre) = [Deliver (q_pre ++ q_data ++ q_pre)] /\
  legacy_column_trace Stub true false q_pk None q_client (q_pre ++ q_flip_last q_raw_ab) = [Deliver (q_pre ++ q_flip_last q_raw_ab)] /\
  legacy_column_trace Stub true false q_pk None q_client (repeat_bytes x22 40) = [Deliver (repeat_bytes x22 40)] /\
  legacy_column_trace Stub false false q_pk None q_client (q_pre ++ q_raw_as) = [Deliver (q_pre ++ q_raw_as)].
Proof. repeat split; vm_compute; reflexivity. Qed.

(** the order that DOES matter: the detector must see the container before a callback that replaces it.  With the
    masking decrypt handler registered BEFORE the detector, a poison record in a masked column is replaced by the
    pattern and the detector is never asked ("poison record processor should be first", proxy.go) *)
Theorem C15_legacy_detector_after_masking_refuted :
  exists s ks col d,
    poison_opens Stub q_pk (sc_layout q_raw_as ENVELOPE_ID_ACRASTRUCT) = Ok d /\
    fst (on_column_old_ev [lift wrapper_cb; poison_detector Stub true false q_pk; lift (decrypt_handler (legacy_proc Stub s ks))] col)
      = [Callback] /\
    on_column_old_ev [lift wrapper_cb; lift (decrypt_handler (legacy_proc Stub s ks)); poison_detector Stub true false q_pk] col
      = ([], Ok (q_pre ++ q_pat, true)).
Proof. exists (Some q_mask), q_client, (q_pre ++ q_raw_as), q_data. repeat split; vm_compute; reflexivity. Qed.
Print Assumptions C15_legacy_detector_after_masking_refuted.

(** REFUTED at full strength ("embedded among other bytes") - known finding raw-poison-next-to-container: bytes
    which ExtractSerializedContainer accepts as a container header anywhere in the same value set the wrapper's
    hasMatchedEnvelope flag; ProcessAcraStructs / ProcessAcraBlocks are skipped and the raw poison record is delivered
    without any callback run.  Without those bytes the same record raises the alarm. *)
Definition q_hdr : bytes := [x25; x25; x25; x0e; x00; x00; x00; x00; x00; x00; x00; xf0; x62; x63].
Theorem C15_legacy_raw_next_to_container_refuted :
  exists pk ks hdr v d,
    poison_opens Stub pk (sc_layout v ENVELOPE_ID_ACRASTRUCT) = Ok d /\
    is_ok (sc_extract hdr) = true /\ registry_match hdr = false /\
    legacy_column_trace Stub true false pk None ks (hdr ++ v) = [Deliver (hdr ++ v)] /\
    legacy_column_trace Stub true false pk None ks (v ++ hdr) = [Deliver (v ++ hdr)] /\
    legacy_column_trace Stub true false pk None ks (q_pre ++ v) = [Callback; Deliver (q_pre ++ v)].
Proof. exists q_pk, q_client, q_hdr, q_raw_as, q_data. repeat split; vm_compute; reflexivity. Qed.
Print Assumptions C15_legacy_raw_next_to_container_refuted.

(** the premises of the detection theorems hold on the concrete columns above *)
Fixpoint q_no_byte (b0 : byte) (l : bytes) : bool :=
  match l with [] => true | b :: r => negb (byte_eqb b b0) && q_no_byte b0 r end.
Lemma q_no_byte_forall b0 l : q_no_byte b0 l = true -> Forall (fun b => b <> b0) l.
Proof.
  induction l as [|b r IH]; cbn [q_no_byte]; intros H; [constructor|].
  apply andb_true_iff in H as [H1 H2]. constructor; [|apply IH, H2].
  intros ->. rewrite byte_eqb_refl in H1. discriminate.
Qed.
Example C15_legacy_premises_hold :
  no_container (q_pre ++ q_raw_as ++ q_pre) /\ quiet_tag as_tag q_pre (q_raw_as ++ q_pre) /\
  starts_with as_tag (q_raw_as ++ q_pre) = true /\ as_candidate (q_raw_as ++ q_pre) = Some (length q_raw_as) /\
  no_container (q_pre ++ q_raw_ab ++ q_pre) /\ quiet_tag ab_tag q_pre (q_raw_ab ++ q_pre) /\
  quiet_tag as_tag (q_pre ++ q_raw_ab) q_pre /\ ab_candidate (q_raw_ab ++ q_pre) = Some (length q_raw_ab).
Proof.
  split; [apply no_container_b_sound; vm_compute; reflexivity|].
  split; [apply quiet_tag_if_no_symbol, q_no_byte_forall; vm_compute; reflexivity|].
  split; [vm_compute; reflexivity|]. split; [vm_compute; reflexivity|].
  split; [apply no_container_b_sound; vm_compute; reflexivity|].
  split; [apply quiet_tag_if_no_symbol, q_no_byte_forall; vm_compute; reflexivity|].
  split; [|vm_compute; reflexivity].
  (* no 8-byte tag occurrence starts in prefix ++ block: checked position by position *)
  intros j Hj.
  assert (forallb (fun j => negb (starts_with as_tag (skipn j ((q_pre ++ q_raw_ab) ++ q_pre)))) (seq 0 (length (q_pre ++ q_raw_ab))) = true)
    as Hall by (vm_compute; reflexivity).
  rewrite forallb_forall in Hall. specialize (Hall j). rewrite in_seq in Hall.
  apply negb_true_iff, Hall. lia.
Qed.
