(** C07 — "any byte change to a stored key ring is detected when it is read", for the reads that
    happen while the key store is OPEN: every update of a KeyRing handle (AddKey, SetCurrent,
    SetState, DestroyKey, import) reads the stored file again.  Model: Model/RingStore.v (handles,
    adversary acting at any Get, the Verify / Sign / Put calls in order); statements only.
    [mac] is any MAC function, [algs] the notary's algorithms, [decode] any payload decoder. *)
From Coq Require Import List NArith ZArith.
From Acra Require Import Lib.Bytes Lib.Outcome Gen.KsConsts Gen.KeyStates Model.Notary Model.RingStore
  Proofs.Notary Proofs.RingStore.
Import ListNotations.

(** every_read_verified: in EVERY history (any start state, any operations through any handles, any
    adversary changes armed for any Get) the seam events of each operation follow the grammar
    [reads_verified]: a Get that returns a parsable file is followed by the Verify calls of
    Notary.verifySignatures over exactly the payload and signatures returned and the signature
    context of that ring; Sign / Put / further Gets come after it only if that check succeeded;
    a Get that returns garbage ends the operation. *)
Theorem C07_every_read_verified :
  forall (mac : bytes -> bytes -> bytes) (algs : list (bytes * bytes)) (decode : bytes -> option ringv)
         (s : rstate) (ops : list rop),
  Forall (reads_verified mac algs) (map o_evs (run_hist mac algs decode s ops)).
Proof. exact every_read_verified. Qed.
Print Assumptions C07_every_read_verified.

(** the grammar is what it says: after a Get of a signed file nothing is signed or stored unless
    verify_ring accepted exactly these bytes *)
Theorem C07_no_write_after_failed_check :
  forall (mac : bytes -> bytes -> bytes) (algs : list (bytes * bytes)) (p pl : bytes) (sg : list (bytes * bytes)) (rest : list ev),
  reads_verified mac algs (EGet p (Some (SParsed pl sg)) :: rest) ->
  verify_ring mac algs sg p pl <> Ok tt ->
  rest = checks_of mac algs p pl sg.
Proof.
  intros mac algs p pl sg rest H Hv. inversion H; subst; [contradiction| reflexivity].
Qed.
Print Assumptions C07_no_write_after_failed_check.

(** accepted_were_signed: for every history from the empty store, every (path, payload) that any
    pull ever accepted (and so every snapshot a handle holds and every base of an update) is a MAC
    input the key store itself signed for that path — or a MAC forgery is exhibited *)
Theorem C07_accepted_were_signed :
  forall (mac : bytes -> bytes -> bytes) (algs : list (bytes * bytes)) (decode : bytes -> option ringv)
         (tape : list bytes) (ops : list rop),
  let s := final_st mac algs decode (rinit tape) ops in
  Forall (acc_ok mac algs (signed s)) (accepted s).
Proof. exact accepted_were_signed. Qed.
Print Assumptions C07_accepted_were_signed.

(** open_handle_tamper_detected: the file of the ring, as the next Get will return it, carries a
    payload the key store never signed for this path (changed after the handle was opened, between
    two updates, by a swap ...): the update through the open handle fails, signs and stores
    nothing, leaves files and handles as they were — or a MAC forgery is exhibited *)
Theorem C07_open_handle_tamper_detected :
  forall (mac : bytes -> bytes -> bytes) (algs : list (bytes * bytes)) (decode : bytes -> option ringv)
         (s : rstate) (h : nat) (hd : handle) (ts : list tx) (val : list bytes) (pl : bytes) (sg : list (bytes * bytes)),
  flookup (h_path hd) (files (fire s)) = Some (SParsed pl sg) ->
  ~ In (mac_input (ring_sig_ctx (h_path hd)) pl) (signed s) ->
  (exists x e, update mac algs decode s h hd ts val = (fire s, Err x, e) /\ writes_nothing e) \/
  mac_forgery mac algs sg (signed s).
Proof. exact open_handle_tamper_detected. Qed.
Print Assumptions C07_open_handle_tamper_detected.

Theorem C07_open_handle_garbage_detected :
  forall (mac : bytes -> bytes -> bytes) (algs : list (bytes * bytes)) (decode : bytes -> option ringv)
         (s : rstate) (h : nat) (hd : handle) (ts : list tx) (val : list bytes),
  flookup (h_path hd) (files (fire s)) = Some SGarbage ->
  update mac algs decode s h hd ts val = (fire s, Err E_PARSE, [EGet (h_path hd) (Some SGarbage)]).
Proof. exact open_handle_garbage_detected. Qed.
Print Assumptions C07_open_handle_garbage_detected.

(** handles_show_signed: for every history from the empty store, the snapshot that ANY handle holds
    (what CurrentKey / AllKeys / State / key getters serve without touching the storage) is the
    decoded content of a payload the key store itself signed for that handle's path — or a MAC
    forgery is exhibited: a change of the stored bytes never becomes visible through a handle *)
Theorem C07_handles_show_signed :
  forall (mac : bytes -> bytes -> bytes) (algs : list (bytes * bytes)) (decode : bytes -> option ringv)
         (tape : list bytes) (ops : list rop) (h : nat) (hd : handle),
  let s := final_st mac algs decode (rinit tape) ops in
  hlookup h (handles s) = Some hd ->
  exists pl, decode pl = Some (h_view hd) /\ acc_ok mac algs (signed s) (h_path hd, pl).
Proof. exact handles_show_signed. Qed.
Print Assumptions C07_handles_show_signed.

(** the reads of open / export / import *)
Theorem C07_pull_rejects_unsigned :
  forall (mac : bytes -> bytes -> bytes) (algs : list (bytes * bytes)) (decode : bytes -> option ringv)
         (s : rstate) (p pl : bytes) (sg : list (bytes * bytes)),
  flookup p (files (fire s)) = Some (SParsed pl sg) ->
  ~ In (mac_input (ring_sig_ctx p) pl) (signed s) ->
  (exists x e, pull mac algs decode s p = (fire s, Err x, e) /\ writes_nothing e) \/ mac_forgery mac algs sg (signed s).
Proof. exact pull_rejects_unsigned. Qed.
Print Assumptions C07_pull_rejects_unsigned.

(** non-vacuity: an honest history succeeds; the same history with the stored payload replaced while
    the handle is open (signatures untouched) is refused at the next update, the handle still shows
    the content it had, nothing more was signed; the premises of the theorem above hold there *)
Example C07_open_honest_example : forallb (fun r => is_ok r) (w_results w_honest) = true.
Proof. exact w_honest_ok. Qed.
Example C07_open_tampered_example :
  nth_error (w_results w_tampered) 3 = Some (Err E_SIGNATURE) /\
  nth_error (w_results w_tampered) 4 = Some (Ok (view_vals (mk_ringv [w_k1] V2_NOKEY))) /\
  length (signed (final_st w_mac w_algs w_decode (rinit w_tape) w_tampered)) = 2%nat.
Proof. exact w_tampered_detected. Qed.
Example C07_open_premises_example :
  let s := final_st w_mac w_algs w_decode (rinit w_tape)
             [ROpenRW 0 w_p; RAddKey 0 true 1; RArm 0 w_p (SParsed w_plX (sign_ring w_mac w_algs w_p w_pl1))] in
  flookup w_p (files (fire s)) = Some (SParsed w_plX (sign_ring w_mac w_algs w_p w_pl1)) /\
  ~ In (mac_input (ring_sig_ctx w_p) w_plX) (signed s).
Proof. exact w_premises. Qed.
