(** C05 — A statement rejected by the SQL firewall never reaches the database.
    Only statements, closed by [exact], and their assumptions.  Models: Model/Censor.v (AcraCensor
    chain + table rule), Model/PgSession.v (PostgreSQL proxy, pending query queue; the code AFTER
    patches/fix_pg_pending_queue.diff).  Per-handler match results (exact query / table / pattern) are
    inputs computed by the real matchers; the pattern relation itself is NOT modelled (partial, see
    the differential oracle of the harness). *)
From Coq Require Import List Bool NArith.
From Acra Require Import Lib.Bytes Model.Censor Model.PgSession Proofs.Censor Proofs.PgSession.
(* the replay modules of the correspondence check belong to the cone built by ./check *)
From Acra Require Model.RunCensor Model.RunPgSession.
Import ListNotations.

(** chain semantics: for every configuration, every chain and every statement the verdict of
    HandleQuery is that of the first handler that has an opinion *)
Theorem C05_first_decisive_wins :
  forall (c : censor) (parsed : bool) (hs : list handler),
  handle_query c parsed hs = spec_verdict c parsed hs.
Proof. exact first_decisive_wins. Qed.
Print Assumptions C05_first_decisive_wins.

(** a parsed statement matching a deny rule by normalized text, by a table or by a pattern is
    rejected, wherever the deny handler stands, if no handler in front of it has an opinion *)
Theorem C05_deny_rule_match_rejected :
  forall (c : censor) (pre : list handler) (r : rules) (post : list handler),
  Forall (silent true) pre ->
  (has_q r && m_q r) || (has_t r && t_one r) || (has_p r && m_p r) = true ->
  is_denied (handle_query c true (pre ++ HDeny r :: post)) = true.
Proof. exact deny_rule_match_rejected. Qed.
Print Assumptions C05_deny_rule_match_rejected.

Example C05_deny_rule_premises_satisfiable :
  Forall (silent true) [HCapture; HIgnore false; HAllow (R true false true false false false false)]
  /\ handle_query (Censor false false) true
       ([HCapture; HIgnore false; HAllow (R true false true false false false false)]
          ++ HDeny (R false false true true false false false) :: [HAllowAll]) = Denied ByTable.
Proof. split; [repeat constructor|reflexivity]. Qed.

(** a statement not admitted by the handlers in front of a deny-all terminator is rejected *)
Theorem C05_not_admitted_before_denyall_rejected :
  forall (c : censor) (parsed : bool) (pre post : list handler),
  Forall (silent parsed) pre ->
  is_denied (handle_query c parsed (pre ++ HDenyAll :: post)) = true.
Proof. exact not_admitted_before_denyall_rejected. Qed.
Print Assumptions C05_not_admitted_before_denyall_rejected.

Example C05_denyall_nonvacuous :
  handle_query (Censor true false) true [HAllow (R true false false false false true false); HDenyAll] = Denied ByDenyAll
  /\ handle_query (Censor true false) true [HAllow (R true true false false false true false); HDenyAll] = Allowed.
Proof. split; reflexivity. Qed.

(** unparsable statements are rejected unless the configuration explicitly tolerates them *)
Theorem C05_unparsed_rejected_unless_tolerated :
  forall (c : censor) (hs : list handler),
  ignore_parse_error c = false ->
  (hs <> [] \/ has_writer c = true) ->
  handle_query c false hs = Denied ByParseError.
Proof. exact unparsed_rejected_unless_tolerated. Qed.
Print Assumptions C05_unparsed_rejected_unless_tolerated.

Theorem C05_unparsed_tolerated_only_structural :
  forall (c : censor) (hs : list handler),
  ignore_parse_error c = true ->
  handle_query c false hs = first_decisive false (filter structural hs).
Proof. exact unparsed_tolerated_only_structural. Qed.
Print Assumptions C05_unparsed_tolerated_only_structural.

Example C05_unparsed_examples :
  handle_query (Censor false false) false [HAllowAll] = Denied ByParseError
  /\ handle_query (Censor true false) false [HDeny (R true true true true true true true); HAllowAll] = Allowed
  /\ handle_query (Censor true false) false [HAllow (R true true true true true true true); HDenyAll] = Denied ByDenyAll.
Proof. repeat split; reflexivity. Qed.

(** table rule (CheckTableNamesMatch), for every table set and every FROM tree / INSERT target:
    deny = at least one listed table among those the matcher sees ... *)
Theorem C05_table_rule_deny :
  forall (set : list bytes) (s : stmt_tables),
  fst (check_table_names set s) = true <-> exists t, In t (visible_tables s) /\ in_set set t = true.
Proof. exact table_rule_deny. Qed.
Print Assumptions C05_table_rule_deny.

(** ... allow = all of them (soundness without premise; completeness for non-empty lists) *)
Theorem C05_table_rule_allow_sound :
  forall (set : list bytes) (s : stmt_tables),
  snd (check_table_names set s) = true -> forall t, In t (visible_tables s) -> in_set set t = true.
Proof. exact table_rule_allow_sound. Qed.
Print Assumptions C05_table_rule_allow_sound.

Theorem C05_table_rule_allow_complete :
  forall (set : list bytes) (from : list texpr),
  from <> [] -> wf_all from ->
  (forall t, In t (flat_map leaves from) -> in_set set t = true) ->
  snd (check_table_names set (STSelect from)) = true.
Proof. exact table_rule_allow_complete. Qed.
Print Assumptions C05_table_rule_allow_complete.

Example C05_table_rule_examples :
  let a := TAliased (hb 0x161) in let b := TAliased (hb 0x162) in
  check_table_names [hb 0x161] (STSelect [b; TParen [TJoin b a; a]; a]) = (true, false)
  /\ check_table_names [hb 0x161; hb 0x162] (STSelect [b; TParen [TJoin b a; a]; a]) = (true, true)
  /\ wf_all [b; TParen [TJoin b a; a]; a].
Proof. cbn zeta. split; [|split]; [vm_compute; reflexivity ..|]. cbn. intuition discriminate. Qed.

(** "by a table it reads from": holds for FROM trees without sub-selects ... *)
Theorem C05_table_rule_deny_reads_partial :
  forall (set : list bytes) (e : texpr) (t : bytes),
  no_sub e -> In t (reads e) -> in_set set t = true -> fst (check_expr set e) = true.
Proof. exact table_rule_deny_reads_partial. Qed.
Print Assumptions C05_table_rule_deny_reads_partial.

(** ... and is REFUTED for a table read inside a sub-select (known finding deny-table-nested-read:
    `SELECT * FROM (SELECT n FROM secrets) AS x` passes `deny tables: [secrets]`) *)
Theorem C05_table_rule_nested_read_refuted :
  exists set e t, In t (reads e) /\ in_set set t = true /\ fst (check_expr set e) = false.
Proof. exact table_rule_nested_read_refuted. Qed.
Print Assumptions C05_table_rule_nested_read_refuted.

(** chain and table rule together, the rule evaluated on the FROM tree by the model ([rules_of]): a deny
    handler listing a table the statement shows anywhere in its FROM tree rejects it ... *)
Theorem C05_deny_table_visible_rejected :
  forall (c : censor) (pre post : list handler) (s : stmt_tables) (hq mq : bool) (ts : list bytes) (hp mp : bool) (t : bytes),
  Forall (silent true) pre ->
  In t (visible_tables s) -> in_set ts t = true ->
  is_denied (handle_query c true (pre ++ HDeny (rules_of s hq mq ts hp mp) :: post)) = true.
Proof. exact deny_table_visible_rejected. Qed.
Print Assumptions C05_deny_table_visible_rejected.

(** ... and an allow handler with a `tables:` list in front of denyall does not admit a statement showing a
    table outside the list *)
Theorem C05_allow_tables_then_denyall_rejected :
  forall (c : censor) (pre post : list handler) (s : stmt_tables) (ts : list bytes) (t : bytes),
  Forall (silent true) pre ->
  In t (visible_tables s) -> in_set ts t = false ->
  is_denied (handle_query c true (pre ++ HAllow (rules_of s false false ts false false) :: HDenyAll :: post)) = true.
Proof. exact allow_tables_then_denyall_rejected. Qed.
Print Assumptions C05_allow_tables_then_denyall_rejected.

(** `FROM a JOIN (b JOIN c)` and `FROM a JOIN (b, c)`: deny [c] rejects; allow [a; b] + denyall rejects;
    allow [a; b; c] + denyall admits *)
Example C05_table_rule_nested_right_join_examples :
  let a := hb 0x161 in let b := hb 0x162 in let c := hb 0x163 in
  let s1 := STSelect [TJoin (TAliased a) (TParen [TJoin (TAliased b) (TAliased c)])] in
  let s2 := STSelect [TJoin (TAliased a) (TParen [TAliased b; TAliased c])] in
  check_table_names [c] s1 = (true, false) /\ check_table_names [c] s2 = (true, false)
  /\ check_table_names [a; b] s1 = (true, false) /\ check_table_names [a; b] s2 = (true, false)
  /\ In c (visible_tables s1) /\ in_set [c] c = true /\ in_set [a; b] c = false
  /\ handle_query (Censor false false) true [HDeny (rules_of s1 false false [c] false false)] = Denied ByTable
  /\ handle_query (Censor false false) true [HAllow (rules_of s2 false false [a; b] false false); HDenyAll] = Denied ByDenyAll
  /\ handle_query (Censor false false) true [HAllow (rules_of s1 false false [a; b; c] false false); HDenyAll] = Allowed.
Proof. cbn zeta. repeat split; try (vm_compute; reflexivity). vm_compute. tauto. Qed.

(** session level: the stream forwarded to the database is exactly the accepted statements *)
Theorem C05_forwarded_is_accepted :
  forall (strict : N -> bool) (evs : list event) (st : state),
  forwarded_of (snd (run_session strict st evs)) = accepted evs.
Proof. exact forwarded_is_accepted. Qed.
Print Assumptions C05_forwarded_is_accepted.

(** for every session history no denied statement is in the forwarded stream *)
Theorem C05_denied_never_forwarded :
  forall (strict : N -> bool) (v : N -> bool) (evs : list event) (st : state),
  (forall s c, In (ClientQuery s c) evs -> c = v s) ->
  forall s, In (ToDb s) (snd (run_session strict st evs)) -> v s = false.
Proof. exact denied_never_forwarded. Qed.
Print Assumptions C05_denied_never_forwarded.

(** the client gets one error per rejected statement *)
Theorem C05_rejected_gets_error :
  forall (strict : N -> bool) (evs : list event) (st : state),
  client_errors (snd (run_session strict st evs)) = censored_count evs.
Proof. exact rejected_gets_error. Qed.
Print Assumptions C05_rejected_gets_error.

Example C05_session_example :
  run_session (fun _ => false) init [ClientQuery 1 true; ClientQuery 8 false; DbDataRow true; DbComplete; DbReady]
  = (St [] false, [ToClientError; ToDb 8; RowToClient (Some 8%N) true; PassToClient; PassToClient]).
Proof. reflexivity. Qed.

(** invariant pending = forwarded \ completed *)
Theorem C05_queue_invariant :
  forall (strict : N -> bool) (evs : list sys_event),
  let y := fst (sys_run (step strict) sys_init evs) in
  pending (proxy y) = bq y /\ forwarded y = completed y ++ pending (proxy y).
Proof. exact queue_invariant. Qed.
Print Assumptions C05_queue_invariant.

(** every statement the session goes on to accept is processed according to that statement:
    under a back end answering in order every data row is handled with the settings of the
    statement that produced it — for all interleavings of accepted and rejected statements *)
Theorem C05_queue_aligned :
  forall (strict : N -> bool) (evs : list sys_event) (producer : N) (settings : option N),
  In (RowObs producer settings) (snd (sys_run (step strict) sys_init evs)) ->
  settings = Some producer.
Proof. exact queue_aligned. Qed.
Print Assumptions C05_queue_aligned.

Example C05_queue_aligned_nonvacuous :
  snd (sys_run (step (N.eqb 6)) sys_init
         [CQuery 1 true; CQuery 6 false; CQuery 8 false; BRow true; BRow false; BComplete; BReady; BRow true])
  = [Other ToClientError; Other (ToDb 6); Other (ToDb 8); RowObs 6 (Some 6%N); Other Skipped; Other Skipped;
     Other Skipped; RowObs 8 (Some 8%N)].
Proof. vm_compute. reflexivity. Qed.

(** the same statements are refuted for the code before the fix (two distinct causes) *)
Theorem C05_queue_aligned_refuted_pinned_censored :
  exists strict evs producer settings,
    In (RowObs producer settings) (snd (sys_run (step_pinned strict) sys_init evs))
    /\ settings <> Some producer.
Proof. exact queue_aligned_refuted_pinned_censored. Qed.
Print Assumptions C05_queue_aligned_refuted_pinned_censored.

Theorem C05_queue_aligned_refuted_pinned_skip :
  exists strict evs producer settings,
    In (RowObs producer settings) (snd (sys_run (step_pinned strict) sys_init evs))
    /\ settings <> Some producer.
Proof. exact queue_aligned_refuted_pinned_skip. Qed.
Print Assumptions C05_queue_aligned_refuted_pinned_skip.

(** composition: with the verdicts of the modelled AcraCensor, whatever reaches the database is
    allowed by the independent chain specification *)
Theorem C05_rejected_never_reaches_database :
  forall (strict : N -> bool) (c : censor) (view : N -> bool * list handler) (evs : list event) (st : state),
  (forall s cens, In (ClientQuery s cens) evs ->
                  cens = is_denied (handle_query c (fst (view s)) (snd (view s)))) ->
  forall s, In (ToDb s) (snd (run_session strict st evs)) ->
            spec_verdict c (fst (view s)) (snd (view s)) = Allowed.
Proof. exact rejected_never_reaches_database. Qed.
Print Assumptions C05_rejected_never_reaches_database.
