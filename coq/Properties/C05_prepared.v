(** C05 — "... and every statement the session goes on to accept is still processed according to that
    statement and not the rejected one", for the EXTENDED query protocol of the PostgreSQL proxy:
    prepared-statement registry, portal registry and pending query packets (Model/PgPrepared.v, the
    code AFTER patches/fix_pg_pending_stmt_text.diff).  Statement and portal names are re-used freely:
    accepted then rejected, rejected then accepted, rejected twice, names interleaved, Bind / Describe /
    Execute after a rejected Parse, pipelined or answered message by message — the theorems quantify
    over ALL event histories.  Only statements, closed by [exact]. *)
From Coq Require Import List Bool NArith.
From Acra Require Import Model.PgPrepared Proofs.PgPrepared.
(* the replay module of the correspondence check (domain c05prep) belongs to the cone built by ./check *)
From Acra Require Model.RunPgPrepared.
Import ListNotations.

(** a rejected Parse (and a rejected simple query) changes NOTHING in the session state — registry,
    portals, pending queue — and the client gets the error *)
Theorem C05_prepared_rejected_parse_changes_nothing :
  forall (strict : N -> bool) (st : state) (nm s : N),
  dead st = false ->
  step strict st (ClientParse nm s true) = (st, [ToClientError]).
Proof. exact rejected_parse_changes_nothing. Qed.
Print Assumptions C05_prepared_rejected_parse_changes_nothing.

Theorem C05_prepared_rejected_query_changes_nothing :
  forall (strict : N -> bool) (st : state) (s : N),
  dead st = false ->
  step strict st (ClientQuery s true) = (st, [ToClientError]).
Proof. exact rejected_query_changes_nothing. Qed.
Print Assumptions C05_prepared_rejected_query_changes_nothing.

(** for every session history, every start state and every name: the registry entry of the name is the
    last Parse of that name that was forwarded to the database (what the database holds under it) *)
Theorem C05_prepared_registry_is_last_forwarded :
  forall (strict : N -> bool) (evs : list event) (st : state) (nm : N),
  reg_text (fst (run_session strict st evs)) nm
  = last_forwarded_parse nm (snd (run_session strict st evs)) (reg_text st nm).
Proof. exact registry_is_last_forwarded. Qed.
Print Assumptions C05_prepared_registry_is_last_forwarded.

(** ... which is the last ACCEPTED Parse of that name in the history (rejected ones never show), as
    long as the client side of the session is alive *)
Theorem C05_prepared_registry_is_last_accepted :
  forall (strict : N -> bool) (evs : list event) (st : state) (nm : N),
  dead (fst (run_session strict st evs)) = false ->
  reg_text (fst (run_session strict st evs)) nm = last_accepted_parse nm evs (reg_text st nm).
Proof. exact registry_is_last_accepted. Qed.
Print Assumptions C05_prepared_registry_is_last_accepted.

Example C05_prepared_registry_example :
  let '(st, os) := run_session (fun _ => false) init
       [ClientParse 0 8 false; ClientParse 0 17 true; ClientParse 2 25 true; ClientParse 0 33 true;
        ClientBind 1 0; ClientExecute 1; ClientBind 0 2] in
  dead st = true /\ reg_text st 0 = Some 8%N /\ reg_text st 2 = None
  /\ os = [ToDbParse 0 8; ToClientError; ToClientError; ToClientError; ToDbBind 1 0 8; ToDbExecute 1 8; SessionError].
Proof. vm_compute. repeat split. Qed.

Example C05_prepared_last_accepted_nonvacuous :
  let evs := [ClientParse 0 8 false; ClientParse 0 17 true; ClientBind 0 0; ClientParse 0 24 false; ClientParse 0 41 true] in
  dead (fst (run_session (fun _ => false) init evs)) = false
  /\ last_accepted_parse 0 evs None = Some 24%N
  /\ last_accepted_parse 0 [ClientParse 0 8 false; ClientParse 0 17 true] None = Some 8%N.
Proof. vm_compute. repeat split. Qed.

(** no rejected statement is forwarded, as a Parse or as a simple query, in any history *)
Theorem C05_prepared_denied_never_forwarded :
  forall (strict : N -> bool) (v : N -> bool) (evs : list event) (st : state),
  (forall nm s c, In (ClientParse nm s c) evs -> c = v s) ->
  (forall s c, In (ClientQuery s c) evs -> c = v s) ->
  (forall nm s, In (ToDbParse nm s) (snd (run_session strict st evs)) -> v s = false)
  /\ (forall s, In (ToDb s) (snd (run_session strict st evs)) -> v s = false).
Proof. exact denied_never_forwarded. Qed.
Print Assumptions C05_prepared_denied_never_forwarded.

(** Acra and a database that keeps its OWN registries from the packets it receives agree, after every
    history: same statement under every name, every portal of Acra bound to the same statement in the
    database, pending queue = executions the database still has to answer *)
Theorem C05_prepared_registries_agree :
  forall (strict : N -> bool) (evs : list sys_event),
  let y := fst (sys_run (step strict) sys_init evs) in
  (forall nm, reg_text (proxy y) nm = lookup nm (dstmts (db y)))
  /\ (forall p s, cursor_text (proxy y) p = Some s -> lookup p (dportals (db y)) = Some s)
  /\ map qtext (pending (proxy y)) = bq (db y).
Proof. exact registries_agree. Qed.
Print Assumptions C05_prepared_registries_agree.

(** every statement the session goes on to accept is processed according to that statement: every Bind
    is handed to the OnBind observers with the statement the database binds, every Execute is queued
    with the statement the database executes, every data row is handled with the settings of the
    statement that produced it — for all interleavings of accepted and rejected Parse / Bind / Execute /
    Query messages over re-used names with the answers of a database answering in order *)
Theorem C05_prepared_aligned :
  forall (strict : N -> bool) (evs : list sys_event),
  (forall dbs seen, In (BindObs dbs seen) (snd (sys_run (step strict) sys_init evs)) -> dbs = Some seen)
  /\ (forall dbs queued, In (ExecObs dbs queued) (snd (sys_run (step strict) sys_init evs)) -> dbs = Some queued)
  /\ (forall producer settings, In (RowObs producer settings) (snd (sys_run (step strict) sys_init evs)) ->
                                settings = Some producer).
Proof. exact prepared_aligned. Qed.
Print Assumptions C05_prepared_aligned.

Example C05_prepared_aligned_nonvacuous :
  snd (sys_run (step (N.eqb 6)) sys_init
         [Client (ClientParse 0 8 false); Client (ClientParse 0 17 true); Client (ClientBind 0 0);
          Client (ClientExecute 0); Client (ClientParse 0 25 true); Client (ClientParse 0 34 false);
          BRow true; BComplete; Client (ClientBind 0 0); Client (ClientExecute 0); BReady; BRow true])
  = [Other (ToDbParse 0 8); Other ToClientError; BindObs (Some 8%N) 8; ExecObs (Some 8%N) 8;
     Other ToClientError; Other (ToDbParse 0 34); RowObs 8 (Some 8%N); Other PassToClient;
     BindObs (Some 34%N) 34; ExecObs (Some 34%N) 34; Other PassToClient; RowObs 34 (Some 34%N)].
Proof. vm_compute. reflexivity. Qed.

(** the statement is REFUTED for a proxy that registers a rejected Parse (the seeded defect m43): the
    Bind, the Execute and the row that follow are processed according to the rejected statement 17
    while the database executes the accepted statement 8 *)
Theorem C05_prepared_aligned_refuted_if_rejected_registered :
  exists strict evs,
    In (BindObs (Some 8%N) 17%N) (snd (sys_run (step_m43 strict) sys_init evs))
    /\ In (ExecObs (Some 8%N) 17%N) (snd (sys_run (step_m43 strict) sys_init evs))
    /\ In (RowObs 8%N (Some 17%N)) (snd (sys_run (step_m43 strict) sys_init evs)).
Proof. exact prepared_aligned_refuted_if_rejected_registered. Qed.
Print Assumptions C05_prepared_aligned_refuted_if_rejected_registered.

(** ... and for the pinned tree (before fix_pg_pending_stmt_text): two accepted statements re-use a name
    before the first one is answered; the rows of the first are handled without its settings *)
Theorem C05_prepared_aligned_refuted_pinned :
  exists strict evs,
    In (RowObs 9%N None) (snd (sys_run (step_pinned strict) sys_init evs)).
Proof. exact prepared_aligned_refuted_pinned. Qed.
Print Assumptions C05_prepared_aligned_refuted_pinned.
