(** Properties C14 / C12, work package xtr2: the Go -> Gallina translator (harness/xtr) with an EXTENDED subset:
    append / make / copy on owned slices, nil-sensitive slice parameters, range loops and counted loops
    (structural recursion), general loops (fuel, [Err E_OUT_OF_FUEL]).  Gen/Trans.v is regenerated from the
    current /repo source on every run; each theorem states, for all inputs, that the TRANSLATED definition
    equals the hand-written model.  [Selftest_*] are translations of harness/xtr/selftest (NOT acra code):
    they validate the loop forms for which acra has no free-standing pure function. *)
From Acra Require Import Lib.Bytes Lib.Outcome Lib.GoSlice Gen.Trans Model.RunTrans Proofs.TransEquiv Proofs.TransEquiv2.
From Acra Require Model.MysqlWire Model.Bytea.
Local Open Scope Z_scope.

(** * decryptor/mysql/base.PutLengthEncodedString: [b == nil] is the extra bool parameter *)
Theorem C14_trans_PutLengthEncodedString_nil : forall b : bytes,
  PutLengthEncodedString true b = Ok (MysqlWire.put_lenenc_string None).
Proof. exact trans_PutLengthEncodedString_nil. Qed.
Print Assumptions C14_trans_PutLengthEncodedString_nil.

(** side condition: [make([]byte, 0, len(b)+9)] must be an allocation the runtime accepts *)
Theorem C14_trans_PutLengthEncodedString : forall b : bytes, len b + 9 <= MAXALLOC ->
  PutLengthEncodedString false b = Ok (MysqlWire.put_lenenc_string (Some b)).
Proof. exact trans_PutLengthEncodedString_some. Qed.
Print Assumptions C14_trans_PutLengthEncodedString.

Example C14_trans_PutLengthEncodedString_nonvacuous :
  PutLengthEncodedString false [] = Ok [x00] /\ PutLengthEncodedString true [] = Ok [xfb] /\
  PutLengthEncodedString false [x41; x42] = Ok [x02; x41; x42].
Proof. vm_compute. repeat split. Qed.

(** C12 on the regenerated pair: the decoder reads what the encoder wrote *)
Theorem C12_trans_lenenc_string_roundtrip : forall b rest : bytes, len b + 9 <= MAXALLOC ->
  go_len (MysqlWire.put_lenenc_string (Some b) ++ rest) ->
  exists enc, PutLengthEncodedString false b = Ok enc /\ LengthEncodedString (enc ++ rest) = h_les (enc ++ rest).
Proof. exact trans_lenenc_string_roundtrip. Qed.
Print Assumptions C12_trans_lenenc_string_roundtrip.

(** * utils.IsPrintableEscapeChar / utils.EncodeToOctal (range loop) *)
Theorem C14_trans_IsPrintableEscapeChar : forall c : byte,
  IsPrintableEscapeChar c = Ok (Bytea.is_printable (b2n c)).
Proof. exact trans_IsPrintableEscapeChar. Qed.
Print Assumptions C14_trans_IsPrintableEscapeChar.

Theorem C14_trans_EncodeToOctal : forall data : bytes, go_len data ->
  EncodeToOctal data = Ok (Bytea.encode_octal data).
Proof. exact trans_EncodeToOctal. Qed.
Print Assumptions C14_trans_EncodeToOctal.

Example C14_trans_EncodeToOctal_nonvacuous :
  EncodeToOctal [x00; x41; x5c; xff] = Ok (hb 0x15c303030415c5c5c333737) /\ go_len [x00; x41; x5c; xff].
Proof. split; [vm_compute; reflexivity | unfold go_len; vm_compute; discriminate]. Qed.

(** * translator self-test (not acra code) *)
Theorem C14_trans_Selftest_SumWindow : forall (data : bytes) (from to : Z), go_len data ->
  to <= from \/ (0 <= from /\ to <= len data) ->
  Selftest_SumWindow data from to = h_stsum data from to.
Proof. exact trans_Selftest_SumWindow. Qed.
Print Assumptions C14_trans_Selftest_SumWindow.

Example C14_trans_Selftest_SumWindow_nonvacuous :
  Selftest_SumWindow [x01; x02; x03] 1 3 = Ok 5%N /\ Selftest_SumWindow [x01] 0 2 = Panic.
Proof. vm_compute. split; reflexivity. Qed.

(** the fuel (length + 1) of the translated scanner loop is never exhausted, and the scanner never panics *)
Theorem C14_trans_Selftest_ScanRecords_total : forall data : bytes, go_len data ->
  Selftest_ScanRecords data <> Err E_OUT_OF_FUEL /\ Selftest_ScanRecords data <> Panic.
Proof. exact trans_Selftest_ScanRecords_total. Qed.
Print Assumptions C14_trans_Selftest_ScanRecords_total.

Example C14_trans_Selftest_ScanRecords_nonvacuous :
  Selftest_ScanRecords [x02; x09; x09; xff; x01; x07] = Ok (2, 3) /\ Selftest_ScanRecords [x02; x09] = Err 46%N.
Proof. vm_compute. split; reflexivity. Qed.

Theorem C14_trans_Selftest_PadCopy : forall (src : bytes) (n : Z),
  Selftest_PadCopy src n = (do k <- gmake n; Ok (firstn k src ++ repeat x00 (k - length src))).
Proof. exact trans_Selftest_PadCopy. Qed.
Print Assumptions C14_trans_Selftest_PadCopy.
