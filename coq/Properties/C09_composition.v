(** C09, composition: the rows a statement SELECTS.  Column resolution of HashQuery.OnQuery (C09_resolution) composed
    with the condition-tree argument (C09_conditions) over joined rows.

    Semantics (Model/SearchCompose.v): database = named tables of rows (column name -> cell); the joined rows of a
    FROM list = one row of every base table, left to right through JOIN trees (INNER JOIN); a statement selects the
    joined rows that satisfy every ON condition and the WHERE condition; a column reference is looked up by the SQL
    rule of Model/SearchResolveSpec.v; the database evaluates what it receives literally (substr(e,1,33), casts and
    convert(..,binary) = identity, = / <=> / <> on byte strings; LIKE, every other operator and every other
    row-independent expression are universally quantified parameters).
    Stored image of a plaintext database ([db_rel]): the same tables and rows; a cell of a searchable column holds
    HMAC-index(plaintext) ++ envelope, a cell of a column without setting is the plaintext.
    HMAC-SHA-256 is NOT assumed injective: exactness is [P \/ explicit collision]. *)
From Coq Require Import List Bool NArith Arith.
From Acra Require Import Lib.Bytes Lib.Outcome Lib.Sha256 Crypto.Interface Crypto.Stub Gen.Consts
  Model.Envelope Model.Search Proofs.Search Proofs.SearchExt
  Model.SearchResolveSpec Proofs.SearchResolve Model.SearchCompose Proofs.SearchCompose Properties.C09_resolution.
Import ListNotations.

(** (3) For every dialect, configuration, set of searchable settings, HMAC key, calculateHmac [h] that answers the
    index of the plaintext a value stands for ([h_spec]), LIKE / other operators / other expressions, statement
    s = SELECT|UPDATE|DELETE .. FROM from WHERE w with
      - [scope_ok from]: the top-level scope consists of base tables (under arbitrary JOIN trees) visible under
        distinct non-empty names  (premise of C09_resolution_rewritten_iff_spec),
      - [pg_listed d cfg]  (premise of C09_resolution_rewritten_iff_spec),
      - [flat_s s = true]: no sub-select in WHERE / ON (decidable; the sub-select classes are the known findings
        subselect-outer-scope, derived-unqualified, derived-qualified-column),
      - every comparison of every ON / WHERE condition is in the class [cmp_ok]:
          selected by the code  => bare column [q.]c on the left with [ref_ok d from q] and [operand_ok d from r]
                                   (the remaining premises of C09_resolution_rewritten_iff_spec), and on the right
                                   another column with an equality operator, a literal (PostgreSQL: also below a cast),
                                   or a bare placeholder $i whose bound value the database receives as
                                   index(plaintext the application's value stands for)  (what OnBind does, see
                                   C09_composition_on_bind_lists_selected_placeholders / C09_bound_values_after_bind);
          not selected          => its column references denote no protected column by the SPECIFICATION of name
                                   resolution and its placeholders are passed on unchanged,
    every bound values, every plaintext database and every stored image of it, whenever OnQuery succeeds:
    the joined rows the REWRITTEN statement selects over the STORED database are, position by position, the joined
    rows the ORIGINAL statement selects over the PLAINTEXT database (equal flags over the joined rows, and the selected
    stored rows are the images of the selected plaintext rows),
    OR an explicit HMAC collision is exhibited: a joined plaintext row and a selected comparison of the statement
    whose two plaintext operands (cell / searched plaintext, or cell / cell) are distinct with equal HMAC. *)
Theorem C09_composition_rows_selected_exact :
  forall d cfg srch key mean h like oop oth s s' binds nb sdb pdb,
  pg_listed d cfg -> h_spec key mean h ->
  stmt_ok d cfg srch key mean binds nb s ->
  on_query d cfg srch h s = Ok s' ->
  db_rel cfg srch key sdb pdb ->
  (select_flags cfg like oop oth nb rv_id sdb s'
   = select_flags cfg like oop oth binds (rv_plain cfg srch d mean (sel_from s)) pdb s
   /\ Forall2 (env_rel cfg srch key)
        (select_rows cfg like oop oth nb rv_id sdb s')
        (select_rows cfg like oop oth binds (rv_plain cfg srch d mean (sel_from s)) pdb s))
  \/ stmt_collision d cfg srch key mean oth binds pdb s.
Proof. exact composition. Qed.
Print Assumptions C09_composition_rows_selected_exact.

(** the same with calculateHmac of Model/Search.v (every crypto record, every keyset with an HMAC key): a searched
    envelope of the owner stands for its content ([mean_of]) *)
Theorem C09_composition_rows_selected_exact_crypto :
  forall (C : crypto) ks key d cfg srch like oop oth s s' binds nb sdb pdb,
  ks_hmac ks = Some key ->
  pg_listed d cfg ->
  stmt_ok d cfg srch key (mean_of C ks) binds nb s ->
  on_query d cfg srch (h_of C ks) s = Ok s' ->
  db_rel cfg srch key sdb pdb ->
  (select_flags cfg like oop oth nb rv_id sdb s'
   = select_flags cfg like oop oth binds (rv_plain cfg srch d (mean_of C ks) (sel_from s)) pdb s
   /\ Forall2 (env_rel cfg srch key)
        (select_rows cfg like oop oth nb rv_id sdb s')
        (select_rows cfg like oop oth binds (rv_plain cfg srch d (mean_of C ks) (sel_from s)) pdb s))
  \/ stmt_collision d cfg srch key (mean_of C ks) oth binds pdb s.
Proof.
  intros C ks key d cfg srch like oop oth s s' binds nb sdb pdb Hk Hl Hok Hq Hdb.
  exact (composition d cfg srch key (mean_of C ks) (h_of C ks) like oop oth s s' binds nb sdb pdb Hl (h_of_spec C ks key Hk) Hok Hq Hdb).
Qed.
Print Assumptions C09_composition_rows_selected_exact_crypto.

(** the induction over the condition tree that carries (3) (the statement-type counterpart of
    C09_rewritten_condition_equivalent_row): one related pair of joined rows with the layout of the top-level scope,
    one sub-tree of a WHERE / ON condition *)
Theorem C09_composition_condition_equivalent_row :
  forall d cfg srch key mean h like oop oth from binds nb,
  scope_ok from -> pg_listed d cfg -> h_spec key mean h ->
  forall se pe, env_rel cfg srch key se pe -> map to_scope pe = scope_f from ->
  forall c, flat_c c = true -> all_ok d cfg srch key mean h from binds nb (cmps_c d c) ->
  ev_c cfg like oop oth nb rv_id se (rw_c d cfg srch h from c)
  = ev_c cfg like oop oth binds (rv_plain cfg srch d mean from) pe c
  \/ coll_in d cfg srch key mean oth from binds pe (cmps_c d c).
Proof. exact cond_equiv. Qed.
Print Assumptions C09_composition_condition_equivalent_row.

(** the induction over the FROM list: (a) the joined rows of the stored database are, position by position, the images
    of the joined rows of the plaintext database, for EVERY FROM list; (b) a joined row has the layout of the scope of
    the FROM list; (c) the rewrite does not change the joined rows *)
Theorem C09_composition_joined_rows_layout :
  forall cfg srch key sdb pdb f,
  db_rel cfg srch key sdb pdb ->
  Forall2 (env_rel cfg srch key) (rows_f sdb f) (rows_f pdb f) /\
  (base_f f = true -> forall x, In x (rows_f pdb f) -> map to_scope x = scope_f f) /\
  (forall d srch' h top, rows_f sdb (rw_f d cfg srch' h top f) = rows_f sdb f).
Proof.
  intros cfg srch key sdb pdb f Hdb. split; [apply rows_f_rel; exact Hdb|]. split.
  - intros Hb x Hx. apply (rows_f_scope pdb f x Hb Hx).
  - intros d srch' h top. apply rows_rw_f.
Qed.
Print Assumptions C09_composition_joined_rows_layout.

(** the look-up of the evaluator is the reference resolution of Model/SearchResolveSpec.v with the row kept *)
Theorem C09_composition_lookup_is_resolution :
  forall cfg (e : env) q c,
  resolve cfg 1 (map to_scope e) q c = match ents_match cfg e q c with [x] => Some (e_tb x, c) | _ => None end.
Proof. exact resolve_env. Qed.
Print Assumptions C09_composition_lookup_is_resolution.

(** HashQuery.OnBind (model [on_bind]) lists the placeholder of every selected comparison  column op $i  and the
    statement has that many bound values: those are the values [cmp_ok] wants replaced *)
Theorem C09_composition_on_bind_lists_selected_placeholders :
  forall d cfg srch s n idx op l i,
  on_bind d cfg srch s n = Ok idx -> In (op, l, EVal (VPar i)) (cmps_s d s) ->
  sel_cmp d cfg srch (sel_from s) op l (EVal (VPar i)) <> None -> In i idx /\ i < n.
Proof. exact on_bind_lists. Qed.
Print Assumptions C09_composition_on_bind_lists_selected_placeholders.

(** * non-vacuity: a 2-table JOIN and a third table
      SELECT .. FROM t1 AS a JOIN t2 ON a.s = t2.s, t3
       WHERE (a.s = 'alice' OR t2.s <> $1) AND NOT (t3.p = 'x') AND t3.id = $2
    configuration y_cfg = w_cfg of C09_resolution without t5 (searchable: t1.s, t2.s, t3.p, t4.z) *)
Definition y_ks : keyset := Build_keyset None [] [repeat_bytes x01 32] (Some (repeat_bytes x02 32)).
Definition y_key : bytes := repeat_bytes x02 32.
Definition y_tape : list bytes := [repeat_bytes x03 32; repeat_bytes x04 12; repeat_bytes x05 12].
(** the insert path of Model/Search.v *)
Definition y_stored (p : bytes) : bytes :=
  match searchable_encrypt Stub ENVELOPE_ID_ACRABLOCK y_ks y_tape p with Ok s => s | _ => [] end.

Definition alice := b [97;108;105;99;101]. Definition bob := b [98;111;98]. Definition carol := b [99;97;114;111;108].
Definition vx := b [120]. Definition vy := b [121]. Definition n1 := b [49]. Definition n2 := b [50].
Definition n7 := b [55]. Definition n8 := b [56].
Definition ca := b [97].

Definition y_pdb : db :=
  [(t1, [[(cid, n1); (cs, alice); (cp, vx)]; [(cid, n2); (cs, bob); (cp, vy)]]);
   (t2, [[(cid, n1); (cs, alice); (cq, vx)]; [(cid, n2); (cs, carol); (cq, vy)]]);
   (t3, [[(cid, n7); (cs, vx); (cp, vx)]; [(cid, n8); (cs, vy); (cp, vy)]])].
Definition y_sdb : db := Eval vm_compute in
  [(t1, [[(cid, n1); (cs, y_stored alice); (cp, vx)]; [(cid, n2); (cs, y_stored bob); (cp, vy)]]);
   (t2, [[(cid, n1); (cs, y_stored alice); (cq, vx)]; [(cid, n2); (cs, y_stored carol); (cq, vy)]]);
   (t3, [[(cid, n7); (cs, vx); (cp, y_stored vx)]; [(cid, n8); (cs, vy); (cp, y_stored vy)]])].

Definition y_lit (v : bytes) := EVal (VLit v).
(** w_cfg without t5 (whose encrypted column is not listed in `columns`): [pg_listed] holds for PostgreSQL as well *)
Definition y_cfg : CR.rcfg := firstn 4 w_cfg.
Lemma y_cfg_listed : forall d, pg_listed d y_cfg.
Proof.
  intros d _ n s c Hs. unfold CR.get_schema in Hs. cbn in Hs.
  repeat match type of Hs with context [if ?X then _ else _] => destruct X end; try discriminate Hs; injection Hs as <-;
    unfold CR.knows_col, CR.lists_col, CR.col_setting; cbn;
    (match goal with |- context [if bytes_eqb c ?x then _ else _] => destruct (bytes_eqb c x) eqn:E end; [|reflexivity]);
    apply bytes_eqb_eq in E; subst c; reflexivity.
Qed.
Definition y_where : cond :=
  CAnd (CParen (COr (CCmp OpEq (ECol ca cs) (y_lit alice)) (CCmp OpNe (ECol t2 cs) (EVal (VPar 0)))))
       (CAnd (CNot (CCmp OpEq (ECol t3 cp) (y_lit vx))) (CCmp OpEq (ECol t3 cid) (EVal (VPar 1)))).
Definition y_sel : sel := Sel [] ex_from y_where.
Definition y_binds : list bytes := [carol; n8].
Definition y_nb : list bytes := Eval vm_compute in [blind_index y_key carol; n8].
Definition y_mean := mean_of Stub y_ks.
Definition y_h := h_of Stub y_ks.
Definition y_like (a b : bytes) := bytes_eqb a b.
Definition y_oop (a b : bytes) := Nat.ltb (length a) (length b).     (* "shorter than" stands for an order operator *)
Definition y_oth (n : N) : bytes := [].

Ltac y_hid := cbn; intros _ e He Hne; cbn in He; destruct He as [<-|[<-|[<-|[]]]]; cbn in *; congruence.
Ltac y_selected d n q c :=
  unfold cmp_ok;
  match goal with |- match ?X with _ => _ end =>
    let E := fresh "E" in assert (E : X = Some n) by (destruct d; vm_compute; reflexivity); rewrite E end;
  exists q, c; split; [reflexivity|split; [y_hid|split]].

Example C09_composition_premises_example :
  forall d, pg_listed d y_cfg /\ h_spec y_key y_mean y_h /\ ks_hmac y_ks = Some y_key /\
            stmt_ok d y_cfg w_srch y_key y_mean y_binds y_nb y_sel /\ db_rel y_cfg w_srch y_key y_sdb y_pdb.
Proof.
  intro d. split; [apply y_cfg_listed|]. split; [apply h_of_spec; reflexivity|]. split; [reflexivity|]. split.
  - split; [exact (proj1 (C09_resolution_premises_example d))|]. split; [reflexivity|].
    assert (Hc : cmps_s d y_sel =
      [(OpEq, ECol ca cs, ECol t2 cs); (OpEq, ECol ca cs, y_lit alice); (OpNe, ECol t2 cs, EVal (VPar 0));
       (OpEq, ECol t3 cp, y_lit vx); (OpEq, ECol t3 cid, EVal (VPar 1))]) by reflexivity.
    rewrite Hc. repeat apply Forall_cons; [| | | | |apply Forall_nil].
    + y_selected d 4%N ca cs; [y_hid|destruct d; reflexivity].
    + y_selected d 1%N ca cs; [exact I|destruct d; discriminate].
    + y_selected d 4%N t2 cs; [exact I|vm_compute; reflexivity].
    + y_selected d 2%N t3 cp; [exact I|destruct d; discriminate].
    + unfold cmp_ok.
      assert (E : sel_cmp d y_cfg w_srch (sel_from y_sel) OpEq (ECol t3 cid) (EVal (VPar 1)) = None) by (destruct d; vm_compute; reflexivity).
      rewrite E. split; [reflexivity|]. split; [reflexivity|]. intros i [<-|[]]. reflexivity.
  - apply db_img_rel. vm_compute. reflexivity.
Qed.

(** OnQuery succeeds; the stored side and the plaintext side select the same joined rows: 8 joined rows, 1 selected
    ((a.id, t2.id, t3.id) = (1, 1, 8)) *)
Definition y_rewritten (d : dial) : sel :=
  match on_query d y_cfg w_srch y_h y_sel with Ok s => s | _ => y_sel end.

Example C09_composition_round_example :
  forall d,
  (exists s', on_query d y_cfg w_srch y_h y_sel = Ok s' /\ s' <> y_sel) /\
  select_flags y_cfg y_like y_oop y_oth y_nb rv_id y_sdb (y_rewritten d)
    = [false; true; false; false; false; false; false; false] /\
  select_flags y_cfg y_like y_oop y_oth y_binds (rv_plain y_cfg w_srch d y_mean ex_from) y_pdb y_sel
    = [false; true; false; false; false; false; false; false].
Proof.
  intro d. split; [|split].
  - destruct d; (eexists; split; [vm_compute; reflexivity|intro H; discriminate H]).
  - destruct d; vm_compute; reflexivity.
  - destruct d; vm_compute; reflexivity.
Qed.

(** a single FROM table with an unqualified column and a PostgreSQL cast literal, all premises for PostgreSQL
    (configuration: table t1 only, s searchable and listed in `columns`):
      SELECT .. FROM t1 WHERE s = 'bob'::text AND id <> '1' *)
Definition y_cfg1 : CR.rcfg := [((t1, [cid; cs; cp]), [(cs, 1%N)])].
Definition y_pdb1 : db := firstn 1 y_pdb.
Definition y_sdb1 : db := firstn 1 y_sdb.
Definition y_sel1 : sel :=
  Sel [] (fl [TBase t1 []]) (CAnd (CCmp OpEq (ECol [] cs) (ECast (y_lit bob))) (CCmp OpNe (ECol [] cid) (y_lit n1))).
Example C09_composition_single_table_example :
  pg_listed RPG y_cfg1 /\
  stmt_ok RPG y_cfg1 w_srch y_key y_mean [] [] y_sel1 /\
  db_rel y_cfg1 w_srch y_key y_sdb1 y_pdb1 /\
  (select_flags y_cfg1 y_like y_oop y_oth [] rv_id y_sdb1
     (match on_query RPG y_cfg1 w_srch y_h y_sel1 with Ok s => s | _ => y_sel1 end) = [false; true]) /\
  (select_flags y_cfg1 y_like y_oop y_oth [] (rv_plain y_cfg1 w_srch RPG y_mean (sel_from y_sel1)) y_pdb1 y_sel1 = [false; true]).
Proof.
  split; [|split; [|split; [|split]]].
  - intros _ n s c Hs. unfold CR.get_schema in Hs. cbn in Hs.
    match type of Hs with context [if ?X then _ else _] => destruct X end; [|discriminate Hs]. injection Hs as <-.
    unfold CR.knows_col, CR.lists_col, CR.col_setting. cbn.
    match goal with |- context [if bytes_eqb c ?x then _ else _] => destruct (bytes_eqb c x) eqn:E end; [|reflexivity].
    apply bytes_eqb_eq in E. subst c. reflexivity.
  - split.
    + split; [reflexivity|]. split; [repeat constructor; cbn; intuition discriminate|repeat constructor; discriminate].
    + split; [reflexivity|].
      assert (Hc : cmps_s RPG y_sel1 = [(OpEq, ECol [] cs, ECast (y_lit bob)); (OpNe, ECol [] cid, y_lit n1)]) by reflexivity.
      rewrite Hc. repeat apply Forall_cons; [| |apply Forall_nil].
      * unfold cmp_ok.
        assert (E : sel_cmp RPG y_cfg1 w_srch (sel_from y_sel1) OpEq (ECol [] cs) (ECast (y_lit bob)) = Some 1%N) by (vm_compute; reflexivity).
        rewrite E. exists [], cs. split; [reflexivity|]. split.
        { cbn. split; [reflexivity|]. intros e [<-|[]] _ e' [<-|[]] Hne. cbn in Hne. congruence. }
        split; [exact I|discriminate].
      * unfold cmp_ok.
        assert (E : sel_cmp RPG y_cfg1 w_srch (sel_from y_sel1) OpNe (ECol [] cid) (y_lit n1) = None) by (vm_compute; reflexivity).
        rewrite E. split; [reflexivity|]. split; [reflexivity|]. intros i [].
  - apply db_img_rel. vm_compute. reflexivity.
  - vm_compute. reflexivity.
  - vm_compute. reflexivity.
Qed.

(** * outside [cmp_ok]: two searchable columns under an ORDER operator.  The code selects column-op-column for every
    operator and leaves an order operator in place:  a.s < t2.s  becomes  substr(a.s,1,33) < substr(t2.s,1,33).
    With "shorter than" for the operator the two sides disagree on the example database and no collision is involved. *)
Definition y_from2 : flist := fl [TBase t1 ca; TBase t2 []].
Definition y_sel_lt : sel := Sel [] y_from2 (CCmp OpOther (ECol ca cs) (ECol t2 cs)).
Theorem C09_composition_column_order_refuted :
  forall d, exists s',
  on_query d w_cfg w_srch y_h y_sel_lt = Ok s' /\ s' <> y_sel_lt /\
  select_flags w_cfg y_like y_oop y_oth [] rv_id y_sdb s'
  <> select_flags w_cfg y_like y_oop y_oth [] (rv_plain w_cfg w_srch d y_mean y_from2) y_pdb y_sel_lt.
Proof.
  intro d. destruct d; (eexists; split; [vm_compute; reflexivity|split; [intro H; discriminate H|vm_compute; intro H; discriminate H]]).
Qed.
Print Assumptions C09_composition_column_order_refuted.
