(** C15 — Poison records always raise the alarm, ordinary data never does.
    Only statements, closed by [exact], and their assumptions.
    Vocabulary: Model/Poison.v re-states the column scanner with an event trace ([Callback] = the callback
    storage's Call() ran; [Deliver v] / [Abort] = the one final event of the operation);
    [poison_opens C pk c] = RegistryHandler.Process of container [c] under the poison keys [pk] (the keystore
    wrapper of crypto/poison_detector.go); [is_envelope id inner v] = [v] is a well-formed serialized envelope;
    [quiet p t] = no tag occurrence starts inside the prefix [p] (C01). *)
From Acra Require Import Lib.Bytes Lib.Outcome Crypto.Interface Gen.Consts Gen.MaskConsts Model.Envelope Model.Poison
  Proofs.Envelope Proofs.EnvelopeHandlers Proofs.Scanner Proofs.Containers Proofs.Poison.

(** a poison record = ordinary envelope under the poison keys around random data: both kinds are well-formed
    envelopes which the poison keys open, under ANY later poison-key history that still holds the key
    (asymmetric: private key anywhere in the list; symmetric: key anywhere in the list), whatever follows them *)
Theorem C15_poison_record_asymmetric :
  forall (C : crypto), Correct C ->
  forall (pk : poison_keys) (tape : list bytes) (data sb : bytes) (before after : list bytes) (s : bytes),
  data <> [] -> (N.of_nat (length data) < MAXMSG)%N -> good_as_tape tape -> length sb = SEED_LEN ->
  pk_privs pk = before ++ priv_of C sb :: after ->
  (forall v, Forall (fun p => exists e, as_decrypt C v p [] = Err e) before) ->
  exists v inner, create_poison_record C (pub_of C sb) data tape = Ok v /\
    is_envelope ENVELOPE_ID_ACRASTRUCT inner v /\ poison_opens C pk (v ++ s) = Ok data.
Proof. intros C HC. exact (poison_record_asymmetric C HC). Qed.
Print Assumptions C15_poison_record_asymmetric.

Theorem C15_poison_record_symmetric :
  forall (C : crypto), Correct C ->
  forall (pk : poison_keys) (tape : list bytes) (data key : bytes) (before after : list bytes) (s : bytes),
  data <> [] -> (N.of_nat (length data) < MAXMSG)%N -> good_ab_tape tape -> key <> [] ->
  pk_syms pk = before ++ key :: after ->
  (forall ek, Forall (fun k => bytes_eqb (ab_key_id k []) (ab_key_id key []) = false
                               \/ cell_decrypt C k [] ek = None) before) ->
  exists v inner, create_sym_poison_record C key data tape = Ok v /\
    is_envelope ENVELOPE_ID_ACRABLOCK inner v /\ poison_opens C pk (v ++ s) = Ok data.
Proof. intros C HC. exact (poison_record_symmetric C HC). Qed.
Print Assumptions C15_poison_record_symmetric.

(** detection: any envelope a poison key opens, at any offset after a quiet prefix and before any suffix,
    with ANY callbacks after the detector: the first event of the column is the callback run *)
Theorem C15_poison_detected :
  forall (C : crypto) (cb_err : bool) (pk : poison_keys) (cbs : list ecb) (p v s : bytes) (id : byte) (inner d : bytes),
  is_envelope id inner v -> poison_opens C pk (v ++ s) = Ok d -> quiet p (v ++ s) ->
  exists evs r, on_column_ev (poison_detector C true cb_err pk :: cbs) (p ++ v ++ s) = (Callback :: evs, r).
Proof. exact poison_detected. Qed.
Print Assumptions C15_poison_detected.

(** in the proxy's chain (poison detector first, then the decrypt handler): the trace is one or more callback
    runs followed by exactly one final event - the callbacks precede the delivery *)
Theorem C15_poison_detected_before_delivery :
  forall (C : crypto) (cb_err : bool) (pk : poison_keys) (ks : keyset) (p v s : bytes) (id : byte) (inner d : bytes),
  is_envelope id inner v -> poison_opens C pk (v ++ s) = Ok d -> quiet p (v ++ s) ->
  exists k fin, column_trace C true cb_err pk ks (p ++ v ++ s) = repeat Callback (S k) ++ [fin] /\ is_final fin.
Proof. exact poison_detected_before_delivery. Qed.
Print Assumptions C15_poison_detected_before_delivery.

(** every column trace, poison or not: callback runs, then the single final event *)
Theorem C15_column_trace_shape :
  forall (C : crypto) (has cb_err : bool) (pk : poison_keys) (ks : keyset) (col : bytes),
  exists k fin, column_trace C has cb_err pk ks col = repeat Callback k ++ [fin] /\ is_final fin.
Proof. exact column_trace_shape. Qed.
Print Assumptions C15_column_trace_shape.

(** no false alarm, WITHOUT assuming unforgeability: if no poison key opens any candidate envelope of the column
    (a premise on the decrypt function's results only), no callback runs *)
Theorem C15_no_false_alarm :
  forall (C : crypto) (has cb_err : bool) (pk : poison_keys) (cbs : list (bytes -> res bytes)) (col : bytes),
  (forall j n c d, sc_extract (skipn j col) = Ok (n, c) -> poison_opens C pk c <> Ok d) ->
  ~ In Callback (fst (on_column_ev (poison_detector C has cb_err pk :: map lift cbs) col)).
Proof. exact no_false_alarm. Qed.
Print Assumptions C15_no_false_alarm.

(** reduction form: a callback run on ANY column exhibits bytes of that column which a poison key opens -
    for a column built from random bytes, client envelopes or damaged records: an explicit forgery witness *)
Theorem C15_callback_has_witness :
  forall (C : crypto) (has cb_err : bool) (pk : poison_keys) (cbs : list (bytes -> res bytes)) (col : bytes),
  In Callback (fst (on_column_ev (poison_detector C has cb_err pk :: map lift cbs) col)) ->
  exists j n c d, sc_extract (skipn j col) = Ok (n, c) /\ poison_opens C pk c = Ok d.
Proof. exact callback_has_witness. Qed.
Print Assumptions C15_callback_has_witness.

(** detector absent (no callback storage / no callbacks configured): no event, and the output is C01's *)
Theorem C15_callbacks_off_no_effect :
  forall (C : crypto) (cb_err : bool) (pk : poison_keys) (proc : bytes -> res bytes) (col : bytes),
  on_column_ev (proxy_chain C false cb_err pk proc) col = ([], on_column [decrypt_handler proc] col).
Proof. exact callbacks_off_no_effect. Qed.
Print Assumptions C15_callbacks_off_no_effect.

(** detector present: it never changes the delivered bytes (callbacks that do not fail), for every input *)
Theorem C15_detector_transparent :
  forall (C : crypto) (pk : poison_keys) (ecbs : list ecb) (col : bytes),
  ecbs <> [] ->
  snd (on_column_ev (poison_detector C true false pk :: ecbs) col) = snd (on_column_ev ecbs col).
Proof. exact detector_transparent. Qed.
Print Assumptions C15_detector_transparent.

(** the traced scanner is the scanner of C01 once events are forgotten (so every C01 theorem applies) *)
Theorem C15_scanner_erasure :
  forall (cbs : list ecb) (inb : bytes), snd (on_column_ev cbs inb) = on_column (map erase cbs) inb.
Proof. exact on_column_erase. Qed.
Print Assumptions C15_scanner_erasure.

(** translator Decrypt / DecryptSym: a value the client's keys cannot decrypt which holds a poison record runs the
    callbacks and returns no value; a successful decrypt never runs them; any run has a witness *)
Theorem C15_translator_detects :
  forall (C : crypto) (id : byte) (ks : keyset) (cb_err : bool) (pk : poison_keys) (p v s : bytes)
         (eid : byte) (inner d : bytes) (e : N),
  decrypt_with_handler C id ks (p ++ v ++ s) = Err e ->
  is_envelope eid inner v -> poison_opens C pk (v ++ s) = Ok d -> quiet p (v ++ s) ->
  exists evs r, tr_decrypt_ev C id ks true cb_err pk (p ++ v ++ s) = (Callback :: evs, r) /\ forall x, r <> Ok x.
Proof. exact translator_detects. Qed.
Print Assumptions C15_translator_detects.

Theorem C15_translator_success_no_event :
  forall (C : crypto) (id : byte) (ks : keyset) (has cb_err : bool) (pk : poison_keys) (data x : bytes),
  decrypt_with_handler C id ks data = Ok x -> tr_decrypt_ev C id ks has cb_err pk data = ([], Ok x).
Proof. exact translator_success_no_event. Qed.
Print Assumptions C15_translator_success_no_event.

Theorem C15_translator_callback_has_witness :
  forall (C : crypto) (id : byte) (ks : keyset) (has cb_err : bool) (pk : poison_keys) (data : bytes),
  In Callback (fst (tr_decrypt_ev C id ks has cb_err pk data)) ->
  exists j n c d, sc_extract (skipn j data) = Ok (n, c) /\ poison_opens C pk c = Ok d.
Proof. exact translator_callback_has_witness. Qed.
Print Assumptions C15_translator_callback_has_witness.

(** non-vacuity on concrete values (stand-in crypto): records of both kinds under a ROTATED key, embedded after a
    prefix; random bytes, a client envelope and a bit-flipped record cause no event *)
From Acra Require Import Crypto.Stub Proofs.StubCorrect.
Definition ex_tape_as : list bytes := [repeat_bytes x01 32; repeat_bytes x02 32; repeat_bytes x03 12; repeat_bytes x04 12].
Definition ex_tape_ab : list bytes := [repeat_bytes x01 32; repeat_bytes x03 12; repeat_bytes x04 12].
Definition ex_old_seed := repeat_bytes x09 32.
Definition ex_pk := Build_poison_keys [priv_of Stub (repeat_bytes x0d 32); priv_of Stub ex_old_seed] [repeat_bytes x0e 32; repeat_bytes x0a 32].
Definition ex_client := Build_keyset (Some (pub_of Stub (repeat_bytes x0b 32))) [priv_of Stub (repeat_bytes x0b 32)] [repeat_bytes x0c 32] None.
Definition ex_data : bytes := [x70; x6f; x69; x73; x6f; x6e].
Definition ex_rec_as : bytes := Eval vm_compute in
  match create_poison_record Stub (pub_of Stub ex_old_seed) ex_data ex_tape_as with Ok v => v | _ => [] end.
Definition ex_rec_ab : bytes := Eval vm_compute in
  match create_sym_poison_record Stub (repeat_bytes x0a 32) ex_data ex_tape_ab with Ok v => v | _ => [] end.
Definition ex_client_env : bytes := Eval vm_compute in
  match encrypt_with_handler Stub ENVELOPE_ID_ACRABLOCK ex_client ex_tape_ab ex_data with Ok v => v | _ => [] end.
Definition ex_pre : bytes := [x61; x62; x63].
Definition flip_last (b : bytes) : bytes := firstn (length b - 1) b ++ [x00].

Example C15_concrete_detection :
  poison_opens Stub ex_pk (ex_rec_as ++ ex_pre) = Ok ex_data /\
  poison_opens Stub ex_pk (ex_rec_ab ++ ex_pre) = Ok ex_data /\
  column_trace Stub true false ex_pk ex_client (ex_pre ++ ex_rec_as ++ ex_pre)
    = [Callback; Deliver (ex_pre ++ ex_rec_as ++ ex_pre)] /\
  column_trace Stub true false ex_pk ex_client (ex_pre ++ ex_rec_ab ++ ex_pre)
    = [Callback; Deliver (ex_pre ++ ex_rec_ab ++ ex_pre)] /\
  column_trace Stub true true ex_pk ex_client (ex_pre ++ ex_rec_ab) = [Callback; Abort] /\
  translator_trace Stub ENVELOPE_ID_ACRASTRUCT ex_client true false ex_pk ex_rec_ab = [Callback; Abort] /\
  translator_trace Stub ENVELOPE_ID_ACRABLOCK ex_client true false ex_pk ex_rec_as = [Callback; Abort].
Proof. repeat split; vm_compute; reflexivity. Qed.

Example C15_concrete_no_alarm :
  column_trace Stub true false ex_pk ex_client (ex_pre ++ ex_client_env ++ ex_pre)
    = [Deliver (ex_pre ++ ex_data ++ ex_pre)] /\
  column_trace Stub true false ex_pk ex_client (ex_pre ++ flip_last ex_rec_ab) = [Deliver (ex_pre ++ flip_last ex_rec_ab)] /\
  column_trace Stub true false ex_pk ex_client (repeat_bytes x25 40) = [Deliver (repeat_bytes x25 40)] /\
  column_trace Stub false false ex_pk ex_client (ex_pre ++ ex_rec_as) = [Deliver (ex_pre ++ ex_rec_as)] /\
  translator_trace Stub ENVELOPE_ID_ACRABLOCK ex_client true false ex_pk ex_client_env = [Deliver ex_data] /\
  translator_trace Stub ENVELOPE_ID_ACRASTRUCT ex_client true false ex_pk ex_client_env = [Abort].
Proof. repeat split; vm_compute; reflexivity. Qed.
