(** C06 — Rotation keeps old data readable; destruction removes exactly the chosen key.

    The property is the abstract machine [spec_step] of Model/KeySpec.v (per slot: current key +
    rotated keys newest first) with [hide = false]; the theorems say (1) what that machine
    guarantees, for every state, (2) that the keystore models — tied to the real code by the
    correspondence replay — show exactly the machine's observations for EVERY operation history
    (refinement, by induction over the history).  Only statements, closed by [exact]. *)
From Coq Require Import List NArith ZArith Bool.
From Acra Require Import Lib.Bytes Lib.Outcome Gen.KeyStates Model.KeySpec Model.KeystoreV1 Model.KeystoreV2
  Model.RunKeyRotation Proofs.KeySpec Proofs.KeystoreV1 Proofs.KeystoreV2 Proofs.KeystoreV1Cache
  Proofs.KeystoreV1Warm.
Import ListNotations.
Local Open Scope N_scope.

(** ** the specification: current = most recently generated survivor, older keys newest first *)
Theorem C06_spec_rotation_keeps_old :
  forall (hide : bool) (st : sstate) (s : slot) (k : ord) (t1 t2 : N),
  let st' := fst (spec_step hide st (Gen s k t1 t2)) in
  s_cur (st' s) = Some k /\ s_all hide (st' s) = k :: s_all false (st s)
  /\ forall s', s' <> s -> st' s' = st s'.
Proof. exact spec_rotation_keeps_old. Qed.
Print Assumptions C06_spec_rotation_keeps_old.

(** destroying the key the listing shows under index i (index 2 = oldest rotated key) removes that
    key and no other, in that slot and in every other slot *)
Theorem C06_spec_destroy_by_listed_index_removes_exactly_that :
  forall (hide : bool) (st : sstate) (s : slot) (i : Z) (k : ord),
  (2 <= i)%Z -> NoDup (s_rot (st s)) -> listed (st s) i = Some k ->
  let st' := fst (spec_step hide st (DestroyRot s i)) in
  (forall x, In x (s_rot (st' s)) <-> In x (s_rot (st s)) /\ x <> k)
  /\ s_cur (st' s) = s_cur (st s)
  /\ forall s', s' <> s -> st' s' = st s'.
Proof. exact spec_destroy_rotated_exact. Qed.
Print Assumptions C06_spec_destroy_by_listed_index_removes_exactly_that.

Theorem C06_spec_unlisted_index_destroys_nothing :
  forall (hide : bool) (st : sstate) (s : slot) (i : Z),
  rot_pos (length (s_rot (st s))) i = None -> fst (spec_step hide st (DestroyRot s i)) = st.
Proof. exact spec_destroy_rotated_unlisted. Qed.
Print Assumptions C06_spec_unlisted_index_destroys_nothing.

Theorem C06_spec_destroy_current_removes_exactly_that :
  forall (hide : bool) (st : sstate) (s : slot),
  let st' := fst (spec_step hide st (DestroyCur s)) in
  s_cur (st' s) = None /\ s_rot (st' s) = s_rot (st s) /\ forall s', s' <> s -> st' s' = st s'.
Proof. exact spec_destroy_current_exact. Qed.
Print Assumptions C06_spec_destroy_current_removes_exactly_that.

(** ** keystore v1 (file tree, uncached) refines the specification — all histories, all key kinds.
    PARTIAL with respect to the property text: the refined machine is [spec_step true], which
    differs from the property's [spec_step false] in exactly one place
    ([C06_spec_hide_differs_only_without_current]): "read all keys" of a slot whose current key
    was destroyed offers nothing in v1 although rotated keys survive
    ([C06_v1_all_keys_without_current_refuted]; known finding v1-all-keys-fail-without-current). *)
Theorem C06_v1_refines_spec_partial :
  forall ops : list kop, increasing_from 0 (clock_readings ops) ->
  canon_all ops (v1_run NoCache v1_init ops) = spec_run true s_init ops.
Proof. exact v1_nocache_refines_spec. Qed.
Print Assumptions C06_v1_refines_spec_partial.

(** the file tree always abstracts to the specification's state (whatever [hide]) *)
Theorem C06_v1_state_is_spec_state :
  forall ops : list kop, increasing_from 0 (clock_readings ops) ->
  forall s, v1_abs (v_fs (v1_state_after NoCache v1_init ops)) s = spec_state_after true s_init ops s.
Proof. exact v1_abs_after_nocache. Qed.
Print Assumptions C06_v1_state_is_spec_state.

Theorem C06_spec_hide_differs_only_without_current :
  forall (st : sstate) (op : kop),
  fst (spec_step true st op) = fst (spec_step false st op)
  /\ (snd (spec_step true st op) = snd (spec_step false st op)
      \/ exists s, op = All s /\ s_cur (st s) = None /\ s_rot (st s) <> []).
Proof. intros st op. split; [exact (spec_hide_state true st op) | exact (spec_hide_obs st op)]. Qed.
Print Assumptions C06_spec_hide_differs_only_without_current.

(** the full statement ([hide = false]) is refuted by the faithful v1 model: generate, rotate,
    destroy the current key, read all keys *)
Definition c06_w_slot : slot := (KStorageSym, 1).
Definition c06_w_ops : list kop :=
  [Gen c06_w_slot 1 10 11; Gen c06_w_slot 2 20 21; DestroyCur c06_w_slot; All c06_w_slot].
Theorem C06_v1_all_keys_without_current_refuted :
  exists ops : list kop, increasing_from 0 (clock_readings ops)
  /\ canon_all ops (v1_run NoCache v1_init ops) <> spec_run false s_init ops.
Proof.
  exists c06_w_ops. split.
  - cbn. repeat split; reflexivity.
  - vm_compute. discriminate.
Qed.
Print Assumptions C06_v1_all_keys_without_current_refuted.

(** ** keystore v1 with an in-memory key cache (any size: off, 1, …, unbounded).
    The stored keys never depend on the cache: under every cache mode the file tree abstracts to
    the specification's state. *)
Theorem C06_v1_state_is_spec_state_any_cache :
  forall (m : cmode) (ops : list kop), increasing_from 0 (clock_readings ops) ->
  forall s, v1_abs (v_fs (v1_state_after m v1_init ops)) s = spec_state_after true s_init ops s.
Proof. exact v1_abs_after_any_cache. Qed.
Print Assumptions C06_v1_state_is_spec_state_any_cache.

(** "a keystore with an in-memory key cache shows the same as soon as the cache is reset": after
    ANY history, every sequence of reads following Reset (or re-opening the keystore) returns
    exactly what the uncached keystore returns (which refines the specification, above). *)
Theorem C06_v1_after_reset_equals_uncached :
  forall (m : cmode) (ops reads : list kop), forallb is_read reads = true ->
  skipn (length ops + 1) (v1_run m v1_init (ops ++ Reset :: reads))
  = skipn (length ops + 1) (v1_run NoCache v1_init (ops ++ Reset :: reads)).
Proof. exact after_reset_equals_uncached. Qed.
Print Assumptions C06_v1_after_reset_equals_uncached.

Theorem C06_v1_after_reopen_equals_uncached :
  forall (m : cmode) (ops reads : list kop), forallb is_read reads = true ->
  skipn (length ops + 1) (v1_run m v1_init (ops ++ Reopen :: reads))
  = skipn (length ops + 1) (v1_run NoCache v1_init (ops ++ Reopen :: reads)).
Proof. exact after_reopen_equals_uncached. Qed.
Print Assumptions C06_v1_after_reopen_equals_uncached.

(** "before the reset the cached keystore never stops offering a surviving key it offered earlier":
    for EVERY history and every cache mode (off, any size, unbounded), a key that a read-all of a
    slot offered and that still survives at a later read-all of that slot (the slot still has a
    current key, [hide = true], see the known finding above) is offered by the later one — whatever
    happened in between (rotations, destructions, other reads, even Reset/Reopen).
    Premises: the clock increases and the generated versions are distinct (both accepted
    assumptions of this property); without distinct labels the statement is false in the model.
    Invariant (Proofs/KeystoreV1Warm.v): a cached list of historical names always equals the
    directory (purged on every rotation/destruction, fix_c06_2), a cached rotated file never
    changes content, and a STALE cached current key can only hide a current key that was never
    offered ([c06_ex_stale_until_reset] shows such a stale read). *)
Theorem C06_v1_cache_never_drops_survivor :
  forall (m : cmode) (pre mid : list kop) (s : slot) (l1 : list N) (k : ord),
  let ops := pre ++ All s :: mid in
  increasing_from 0 (clock_readings ops) ->
  NoDup (gen_labels ops) ->
  nth_error (v1_run m v1_init (ops ++ [All s])) (length pre) = Some (Ok l1) -> In k l1 ->
  In k (s_all true (spec_state_after true s_init ops s)) ->
  exists l2, nth_error (v1_run m v1_init (ops ++ [All s])) (length ops) = Some (Ok l2) /\ In k l2.
Proof. exact cache_never_drops_survivor. Qed.
Print Assumptions C06_v1_cache_never_drops_survivor.

(** non-vacuity: three versions, a warm read-all, the oldest rotated key destroyed, a second
    read-all through the same (unbounded, never reset) cache: all premises of the theorem hold
    with k = 3 and k = 2 (offered by the first read-all, surviving), and both are still offered *)
Example c06_ex_warm_survivor :
  let s := (KStoragePair, 1) in
  let pre := [Gen s 1 10 11; Cur s; Gen s 2 20 21; All s; Gen s 3 30 31; Cur s] in
  let mid := [Cur s; DestroyRot s 2%Z; ListRot s] in
  let ops := pre ++ All s :: mid in
  increasing_from 0 (clock_readings ops) /\ NoDup (gen_labels ops)
  /\ nth_error (v1_run (Lru 0) v1_init (ops ++ [All s])) (length pre) = Some (Ok [3; 2; 1])
  /\ s_all true (spec_state_after true s_init ops s) = [3; 2]
  /\ nth_error (v1_run (Lru 0) v1_init (ops ++ [All s])) (length ops) = Some (Ok [3; 2]).
Proof.
  cbn zeta. split; [cbn; repeat split; reflexivity|]. split.
  - cbn [app gen_labels]. repeat constructor; cbn; intuition discriminate.
  - repeat split; vm_compute; reflexivity.
Qed.

(** warm cache, no reset: the scenario that failed before fix_c06_2 (only the new key was offered) *)
Example c06_ex_warm_cache_rotation :
  let s := (KStoragePair, 1) in
  canon_all [Gen s 1 10 11; All s; Gen s 2 20 21; All s; Cur s]
            (v1_run (Lru 0) v1_init [Gen s 1 10 11; All s; Gen s 2 20 21; All s; Cur s])
  = [ODone; OKeys [1]; ODone; OKeys [2; 1]; OKeys [2]].
Proof. vm_compute. reflexivity. Qed.

(** a read before the reset may be stale (symmetric keys are not re-cached on generation), after it is exact *)
Example c06_ex_stale_until_reset :
  let s := (KStorageSym, 1) in
  let ops := [Gen s 1 10 11; Cur s; Gen s 2 20 21; Cur s; Reset; Cur s; All s] in
  canon_all ops (v1_run (Lru 0) v1_init ops)
  = [ODone; OKeys [1]; ODone; OKeys [1]; ODone; OKeys [2]; OKeys [2; 1]]
  /\ forallb is_read [Cur s; All s] = true.
Proof. split; vm_compute; reflexivity. Qed.

(** ** keystore v2 (key rings) refines the specification at full strength ([hide = false]) — all
    histories, all key kinds; no premise (seqnums, not clocks, order the versions) *)
Theorem C06_v2_refines_spec :
  forall ops : list kop, canon_all ops (v2_run v2_init ops) = spec_run false s_init ops.
Proof. exact v2_refines_spec. Qed.
Print Assumptions C06_v2_refines_spec.

Theorem C06_v2_state_is_spec_state :
  forall (ops : list kop) (s : slot), v2_abs (v2_state_after ops) s = spec_state_after false s_init ops s.
Proof. exact v2_abs_after. Qed.
Print Assumptions C06_v2_state_is_spec_state.

(** ** non-vacuity: concrete histories *)
Example c06_ex_v2 :
  let s := (KPoisonSym, 0) in
  let ops := [All s; Gen s 1 0 0; Gen s 2 0 0; Gen s 3 0 0; ListRot s; DestroyRot s 2%Z; All s; ListRot s;
              DestroyCur s; Cur s; All s; Gen s 4 0 0; All s; DestroyRot s 1%Z; DestroyRot s 3%Z; All s] in
  canon_all ops (v2_run v2_init ops)
  = [ONone; ODone; ODone; ODone; OKeys [2; 3]; ODone; OKeys [3; 2]; OKeys [2];
     ODone; ONone; OKeys [2]; ODone; OKeys [4; 2]; ODone; ODone; OKeys [4; 2]].
Proof. vm_compute. reflexivity. Qed.

Example c06_ex_rotation :
  let s := (KStoragePair, 2) in
  let ops := [Gen s 1 10 11; Gen s 2 20 21; Gen s 3 30 31; ListRot s; DestroyRot s 2%Z; All s; Cur s;
              DestroyRot s 7%Z; All s; DestroyCur s; Cur s; Gen s 4 40 41; All s] in
  increasing_from 0 (clock_readings ops)
  /\ canon_all ops (v1_run NoCache v1_init ops)
     = [ODone; ODone; ODone; OKeys [2; 3]; ODone; OKeys [3; 2]; OKeys [3];
        ODone; OKeys [3; 2]; ODone; ONone; ODone; OKeys [4; 2]].
Proof. cbn zeta. split; [cbn; repeat split; reflexivity | vm_compute; reflexivity]. Qed.

Example c06_ex_listed :
  let e := {| s_cur := Some 5; s_rot := [4; 3; 1] |} in
  listed e 2%Z = Some 1 /\ listed e 4%Z = Some 4 /\ listed e 5%Z = None /\ NoDup (s_rot e).
Proof.
  cbn zeta. repeat split; try reflexivity.
  repeat constructor; cbn; intuition discriminate.
Qed.

(** the replay entry point of the correspondence check (Model/RunKeyRotation.v) runs these very models *)
Example c06_ex_replay_entry :
  let s := (KStorageSym, 1) in
  run (V1Hist CACHE_INFINITE [Gen s 1 10 11; Gen s 2 20 21; All s; DestroyRot s 2%Z; All s])
  = XOk [[x00]; [x00]; [x00; x02; x01]; [x00]; [x00; x02]]
  /\ run (V2Hist [Gen s 1 0 0; DestroyRot s 2%Z; Cur s])
     = XOk [[x00]; [x01]; [x00; x01]].
Proof. split; vm_compute; reflexivity. Qed.
