(** C05 (extension) — CLAUSE-BY-CLAUSE comparison order of the statement handlers of the pattern matcher
    (acra-censor/common/matching_logic.go handleSelectStatement / handleUpdateStatement / handleDeleteStatement).
    Only statements, closed by [exact], and their assumptions.

    The model's comparator tables (Model/CensorPattern.v [struct_spec_named]) list the comparisons of each
    handler in CODE order; the %%WHERE%% placeholder ends the comparison of the statement node and skips the
    table entries behind it.  The known finding where-placeholder-absorbs-tail is the class of exactly those
    clauses, per statement kind ([after_where]: SELECT GROUP BY / HAVING / ORDER BY / LIMIT / lock; UPDATE and
    DELETE ORDER BY / LIMIT).  Everything else of the statement is compared whatever the WHERE clauses are: in
    particular RETURNING of UPDATE / DELETE, which the code compares BEFORE the WHERE clause.

      reached k i p     field i of a statement node of kind k is not presentation-only, not one of the clauses
                        behind WHERE, and not a WHERE field that holds %%WHERE%% in p
      is_whole_ph p     p is a whole-statement placeholder (%%UPDATE%% ...)
      returning_idx     position of the RETURNING field of Update / Delete (checked below against the schema) *)
From Coq Require Import List Bool NArith Arith String.
From Acra Require Import Lib.Bytes Lib.Outcome Model.CensorPattern.
From Acra Require Import Proofs.CensorPatternSound Proofs.CensorPatternWhere Proofs.CensorPatternClauses.
From Acra Require Import Gen.CensorWitness.
Import ListNotations.

(** for EVERY pattern and statement tree of the parser's shape and every field of the statement node that the
    %%WHERE%% early exit does not skip: a matched statement is an instance of the pattern in that field
    (SELECT / UNION / INSERT / UPDATE / DELETE; with or without %%WHERE%% in the pattern) *)
Theorem C05_clause_reached_whatever_where_placeholder :
  forall (p s : tree) (i : nat),
  wf p = true -> wf s = true ->
  dml_kind (tkind p) = true -> is_whole_ph p = false ->
  match_impl p s = Ok true ->
  i < length (tkids p) -> reached (tkind p) i p = true ->
  instance_of_loose (kid i p) (kid i s) = true.
Proof. exact matched_field_instance. Qed.
Print Assumptions C05_clause_reached_whatever_where_placeholder.

(** the same in the DOCUMENTED reading, when the field of the pattern holds no %%WHERE%% of its own (a sub-select) *)
Theorem C05_clause_reached_documented :
  forall (p s : tree) (i : nat),
  wf p = true -> wf s = true ->
  dml_kind (tkind p) = true -> is_whole_ph p = false ->
  match_impl p s = Ok true ->
  i < length (tkids p) -> reached (tkind p) i p = true ->
  no_where_ph (kid i p) = true ->
  instance_of (kid i p) (kid i s) = true.
Proof. exact matched_field_instance_doc. Qed.
Print Assumptions C05_clause_reached_documented.

(** UPDATE / DELETE: a pattern (with %%WHERE%% or with any other WHERE clause) matches only statements whose
    RETURNING clause is an instance of the pattern's RETURNING clause, for ALL trees of the parser's shape *)
Theorem C05_update_delete_returning_compared :
  forall p s : tree,
  wf p = true -> wf s = true ->
  tkind p = K_Update \/ tkind p = K_Delete ->
  is_whole_ph p = false ->
  match_impl p s = Ok true ->
  instance_of_loose (kid returning_idx p) (kid returning_idx s) = true.
Proof. exact update_delete_returning. Qed.
Print Assumptions C05_update_delete_returning_compared.

(** ... so a pattern WITHOUT a RETURNING clause (`delete from sessions %%WHERE%%`) never matches a statement that
    has one *)
Theorem C05_update_delete_pattern_without_returning :
  forall p s : tree,
  wf p = true -> wf s = true ->
  tkind p = K_Update \/ tkind p = K_Delete ->
  is_whole_ph p = false ->
  is_nil (kid returning_idx p) = true ->
  match_impl p s = Ok true ->
  is_nil (kid returning_idx s) || (slice_kind (tkind (kid returning_idx s)) && (length (tkids (kid returning_idx s)) =? 0)) = true.
Proof. exact update_delete_no_returning. Qed.
Print Assumptions C05_update_delete_pattern_without_returning.

(** the class of the known finding is EXACT: every clause it lists is really skipped behind %%WHERE%% (one matched
    non-instance per clause, parsed by the real parser), i.e. the documented reading is refuted there and only there *)
Theorem C05_where_placeholder_tail_refuted :
  forallb (fun ps => let '(p, s, i) := ps in
             wf p && wf s && after_where (tkind p) i &&
             match match_impl p s with Ok true => true | _ => false end &&
             negb (instance_of (kid i p) (kid i s)) && negb (instance_of p s) && instance_of_loose p s)
    [(W_TAIL_SEL_PAT, W_TAIL_SEL_GROUPBY, 7); (W_TAIL_SEL_PAT, W_TAIL_SEL_HAVING, 8); (W_TAIL_SEL_PAT, W_TAIL_SEL_ORDERBY, 9);
     (W_TAIL_SEL_PAT, W_TAIL_SEL_LIMIT, 10); (W_TAIL_SEL_PAT, W_TAIL_SEL_LOCK, 11);
     (W_TAIL_UPD_PAT, W_TAIL_UPD_ORDERBY, 5); (W_TAIL_UPD_PAT, W_TAIL_UPD_LIMIT, 6);
     (W_TAIL_DEL_PAT, W_TAIL_DEL_ORDERBY, 5); (W_TAIL_DEL_PAT, W_TAIL_DEL_LIMIT, 6)] = true.
Proof. vm_compute. reflexivity. Qed.
Print Assumptions C05_where_placeholder_tail_refuted.

(** * The tables: code order, class of the known finding, schema *)

(** the class [after_where] of the known finding is exactly the set of fields that stand BEHIND the WHERE
    comparison in the model's code-order tables (any re-ordering of a handler's comparisons in the model breaks
    this), for every statement kind and field position *)
Example C05_after_where_is_behind_where_in_code_order :
  forallb (fun k => forallb (fun i => Bool.eqb (after_where k i) (behind_where k i)) (List.seq 0 (length (kind_fields k)))) all_kinds = true.
Proof. vm_compute. reflexivity. Qed.

(** the comparisons of handleUpdateStatement / handleDeleteStatement / handleSelectStatement up to the WHERE clause,
    in the order of the code: RETURNING (field 7) stands in front of WHERE (field 4) *)
Example C05_code_order_upto_where :
  option_map fields_upto_where (struct_spec K_Update) = Some [0; 1; 2; 3; 7; 4] /\
  option_map fields_upto_where (struct_spec K_Delete) = Some [0; 1; 2; 3; 7; 4] /\
  option_map fields_upto_where (struct_spec K_Select) = Some [0; 1; 2; 3; 4; 5; 6] /\
  option_map fields_behind_where (struct_spec K_Update) = Some [5; 6] /\
  option_map fields_behind_where (struct_spec K_Delete) = Some [5; 6] /\
  option_map fields_behind_where (struct_spec K_Select) = Some [7; 8; 9; 10; 11].
Proof. vm_compute. repeat split; reflexivity. Qed.

(** [returning_idx] and [where_idx] are the RETURNING / WHERE fields of the generated schema *)
Example C05_returning_idx_schema :
  nth_error (kind_fields K_Update) returning_idx = Some "Returning"%string /\
  nth_error (kind_fields K_Delete) returning_idx = Some "Returning"%string /\
  option_map (nth_error (kind_fields K_Update)) (where_idx K_Update) = Some (Some "Where"%string) /\
  option_map (nth_error (kind_fields K_Delete)) (where_idx K_Delete) = Some (Some "Where"%string) /\
  option_map (nth_error (kind_fields K_Select)) (where_idx K_Select) = Some (Some "Where"%string) /\
  reached K_Update returning_idx W_UPD_WPAT = true /\ reached K_Delete returning_idx W_DEL_WPAT = true.
Proof. vm_compute. repeat split; reflexivity. Qed.

(** non-vacuity, on trees of the real parser: `delete from sessions %%WHERE%%` matches `delete from sessions where
    id = 17`, does not match the same statement with `returning (select password from users ...)`; the pattern
    with `returning token` matches `... returning token` and not the statement without RETURNING; the same for
    `update accounts set balance = %%VALUE%% %%WHERE%%` *)
Example C05_returning_behind_where_placeholder_examples :
  wf W_DEL_WPAT = true /\ wf W_DEL_OK = true /\ wf W_DEL_RET = true /\
  tkind W_DEL_WPAT = K_Delete /\ is_whole_ph W_DEL_WPAT = false /\
  is_where_ph (kid 4 W_DEL_WPAT) = true /\ is_nil (kid returning_idx W_DEL_WPAT) = true /\
  match_impl W_DEL_WPAT W_DEL_OK = Ok true /\
  match_impl W_DEL_WPAT W_DEL_RET = Ok false /\ instance_of_loose W_DEL_WPAT W_DEL_RET = false /\
  match_impl W_DEL_WPAT_RET W_DEL_RET_TOKEN = Ok true /\
  match_impl W_DEL_WPAT_RET W_DEL_OK = Ok false /\ match_impl W_DEL_WPAT_RET W_DEL_RET = Ok false /\
  wf W_UPD_WPAT = true /\ wf W_UPD_RET = true /\ tkind W_UPD_WPAT = K_Update /\ is_whole_ph W_UPD_WPAT = false /\
  is_where_ph (kid 4 W_UPD_WPAT) = true /\
  match_impl W_UPD_WPAT W_UPD_OK = Ok true /\
  match_impl W_UPD_WPAT W_UPD_RET = Ok false /\ instance_of_loose W_UPD_WPAT W_UPD_RET = false.
Proof. vm_compute. repeat split; reflexivity. Qed.
