(** C04, stage selection: for EVERY encryptor config (any number of tables, in any order) and every column setting in
    it, every stage that setting needs is a member of the write chain / of the column subscribers that
    proxyFactory.New (decryptor/postgresql/proxy.go, decryptor/mysql/proxy.go) builds from
    TableSchemaStore.GetGlobalSettingsMask() (encryptor/base/config/schemaStore.go MapTableSchemaStoreFromConfig:
    per-column mask, OR-ed over the columns of a table and over ALL tables).  Model/Stages.v; bit values from
    Gen/StagesConsts.v (regenerated from the compiled package on every run); the model is replayed on what the real
    factories built (domain c04stages: global mask, chain members, subscribers, forwarded-changed).
    Composition: Model/FullChain.v (Properties/C01_chain.v) takes the installed stages as a PARAMETER [sch] and its
    theorems about searchable / masked columns have the premise that the stage is installed
    ([fc_search sch = true] / [fc_mask sch = true]); C04_stages_searchable_forwarded_protected /
    C04_stages_masked_forwarded_protected discharge that premise for the schema the factory derives from ANY config
    that contains the column, so the forwarded value is the protected form C01_chain describes.
    Only statements closed by [exact], their assumptions and non-vacuity examples. *)
From Coq Require Import List NArith Bool Permutation.
From Acra Require Import Lib.Bytes Lib.Outcome Crypto.Interface Crypto.Stub Gen.StagesConsts Gen.Consts Gen.MaskConsts
  Model.Envelope Model.Masking Model.MaskingWrite Model.Search Model.FullChain Model.Stages Proofs.Stages.
Import ListNotations.
Local Open Scope N_scope.

(** * the global mask *)
(** the accumulator of MapTableSchemaStoreFromConfig = OR over the tables of the OR over their column masks *)
Theorem C04_stages_global_mask_is_or_of_tables :
  forall cfg : config, global_mask cfg = lor_all (map table_mask cfg).
Proof. exact global_mask_spec. Qed.
Print Assumptions C04_stages_global_mask_is_or_of_tables.

(** every bit of the mask of every column of every table is in the global mask *)
Theorem C04_stages_column_mask_in_global_mask :
  forall (cfg : config) (t : list st_col) (c : st_col),
  In t cfg -> In c t -> mask_sub (col_mask c) (global_mask cfg).
Proof. exact col_mask_in_global. Qed.
Print Assumptions C04_stages_column_mask_in_global_mask.

(** the order of the tables (and of the columns inside a table) does not matter *)
Theorem C04_stages_global_mask_permutation_invariant :
  forall cfg cfg' : config, Permutation cfg cfg' -> global_mask cfg = global_mask cfg'.
Proof. exact global_mask_perm. Qed.
Print Assumptions C04_stages_global_mask_permutation_invariant.

Theorem C04_stages_table_mask_permutation_invariant :
  forall t t' : list st_col, Permutation t t' -> table_mask t = table_mask t'.
Proof. exact table_mask_perm. Qed.
Print Assumptions C04_stages_table_mask_permutation_invariant.

(** a table added at ANY position only adds bits *)
Theorem C04_stages_global_mask_monotone :
  forall (cfg1 cfg2 : config) (t : list st_col),
  mask_sub (global_mask (cfg1 ++ cfg2)) (global_mask (cfg1 ++ t :: cfg2)).
Proof. exact global_mask_monotone. Qed.
Print Assumptions C04_stages_global_mask_monotone.

(** * the write chain *)
(** every stage a column setting of the config needs is a member of the chain built for the config *)
Theorem C04_stages_chain_complete :
  forall (cfg : config) (t : list st_col) (c : st_col) (s : stage),
  In t cfg -> In c t -> In s (needs c) -> In s (build_chain (global_mask cfg)).
Proof. exact chain_complete. Qed.
Print Assumptions C04_stages_chain_complete.

(** ... and that stage accepts the setting; a setting always needs at least one stage *)
Theorem C04_stages_needed_stage_accepts :
  forall (c : st_col) (s : stage), In s (needs c) -> stage_accepts s c = true.
Proof. exact needs_accepts. Qed.
Print Assumptions C04_stages_needed_stage_accepts.

Theorem C04_stages_every_setting_needs_a_stage : forall c : st_col, needs c <> [].
Proof. exact needs_nonempty. Qed.
Print Assumptions C04_stages_every_setting_needs_a_stage.

(** hence: a fresh value written to ANY configured column of ANY table is taken by a member of the chain *)
Theorem C04_stages_forwarded_value_is_changed :
  forall (cfg : config) (t : list st_col) (c : st_col),
  In t cfg -> In c t -> forwarded_changed (build_chain (global_mask cfg)) c = true.
Proof. exact forwarded_changed_complete. Qed.
Print Assumptions C04_stages_forwarded_value_is_changed.

Theorem C04_stages_chain_permutation_invariant :
  forall cfg cfg' : config, Permutation cfg cfg' -> build_chain (global_mask cfg) = build_chain (global_mask cfg').
Proof. exact chain_perm. Qed.
Print Assumptions C04_stages_chain_permutation_invariant.

(** a table added at any position never removes a stage *)
Theorem C04_stages_chain_monotone :
  forall (cfg1 cfg2 : config) (t : list st_col) (s : stage),
  In s (build_chain (global_mask (cfg1 ++ cfg2))) -> In s (build_chain (global_mask (cfg1 ++ t :: cfg2))).
Proof. exact chain_monotone. Qed.
Print Assumptions C04_stages_chain_monotone.

(** * the column subscribers (read side), PostgreSQL and MySQL *)
Theorem C04_stages_subscribers_complete :
  forall (mysql : bool) (cfg : config) (t : list st_col) (c : st_col) (s : subscriber),
  In t cfg -> In c t -> In s (needs_subs c) -> In s (build_subs mysql (global_mask cfg)).
Proof. exact subs_complete. Qed.
Print Assumptions C04_stages_subscribers_complete.

Theorem C04_stages_subscribers_permutation_invariant :
  forall (mysql : bool) (cfg cfg' : config),
  Permutation cfg cfg' -> build_subs mysql (global_mask cfg) = build_subs mysql (global_mask cfg').
Proof. exact subs_perm. Qed.
Print Assumptions C04_stages_subscribers_permutation_invariant.

(** MySQL: the settings-recording QueryDataEncryptor is the FIRST subscriber whenever some column of some table is
    tokenized / searchable / masked (OnlyDefaultEncryptorSettings is false) *)
Theorem C04_stages_mysql_query_subscriber_first :
  forall (cfg : config) (t : list st_col) (c : st_col),
  In t cfg -> In c t -> only_encryption c = false ->
  exists rest, build_subs true (global_mask cfg) = SubQuery :: rest.
Proof. exact mysql_query_subscriber_first. Qed.
Print Assumptions C04_stages_mysql_query_subscriber_first.

(** * composition with the full chain of C01 (Properties/C01_chain.v C01_chain_write_searchable / _write_masked):
      what is forwarded for a searchable / masked column of ANY table of ANY config is the protected form *)
Theorem C04_stages_searchable_forwarded_protected :
  forall (C : crypto) (cfg : config) (t : list st_col) (c : st_col) (st : fc_setting) (ks : keyset)
         (tape : list bytes) (data : bytes),
  In t cfg -> In c t -> abstracts c st ->
  fs_searchable st = true -> is_nil (ms_pattern (fs_mask st)) = true ->
  fc_write C (schema_of_mask (global_mask cfg)) st ks tape data = searchable_encrypt C (fs_id st) ks tape data.
Proof. exact searchable_forwarded_protected. Qed.
Print Assumptions C04_stages_searchable_forwarded_protected.

Theorem C04_stages_masked_forwarded_protected :
  forall (C : crypto) (cfg : config) (t : list st_col) (c : st_col) (st : fc_setting) (ks : keyset)
         (tape : list bytes) (data : bytes),
  In t cfg -> In c t -> abstracts c st ->
  fs_searchable st = false -> is_nil (ms_pattern (fs_mask st)) = false ->
  fc_write C (schema_of_mask (global_mask cfg)) st ks tape data = mask_encryptor C (fs_id st) ks tape (fs_mask st) data
  /\ fc_write C (schema_of_mask (global_mask cfg)) st ks tape data
     = write_chain C (fs_id st) ks tape (fs_mask st) (fs_reenc st) data.
Proof. exact masked_forwarded_protected. Qed.
Print Assumptions C04_stages_masked_forwarded_protected.

(** * non-vacuity and sharpness *)
(** the premises hold on a concrete 3-table config in two orders: same mask, same chain, every needed stage present *)
Example C04_stages_example_three_tables :
  let a := [w_plain] in let b := [w_token; w_masked] in let c := [w_search; w_plain] in
  global_mask [a; b; c] = global_mask [c; a; b]
  /\ build_chain (global_mask [b; c; a]) = [StTokenize; StEncrypt; StSearch; StMask; StReencrypt]
  /\ build_chain (global_mask [a]) = [StEncrypt; StReencrypt]
  /\ needs w_search = [StSearch] /\ needs w_token = [StTokenize] /\ needs w_masked = [StMask] /\ needs w_plain = [StEncrypt]
  /\ build_subs false (global_mask [b; c; a]) = [SubDecoder; SubToken; SubHmac; SubDetector; SubVerify; SubEncoder]
  /\ build_subs true (global_mask [a; a]) = [SubPrepared; SubDecoder; SubDetector; SubQuery; SubEncoder].
Proof. vm_compute. repeat split; reflexivity. Qed.

(** [abstracts] is satisfiable by a searchable and by a masked setting *)
Example C04_stages_example_abstracts :
  abstracts w_search (Build_fc_setting true true true (Build_mask_setting [] 0%Z [] 0))
  /\ abstracts w_masked (Build_fc_setting false true false (Build_mask_setting [n2b 120] 3%Z [] 0)).
Proof. unfold abstracts. vm_compute. repeat split; reflexivity. Qed.

(** sharpness: with the mask of the LAST table alone (instead of the OR over all tables) the theorems fail - a
    searchable column of the first table gets no stage and its value is forwarded unchanged *)
Theorem C04_stages_last_table_mask_refuted :
  exists (cfg : config) (t : list st_col) (c : st_col) (s : stage),
    In t cfg /\ In c t /\ In s (needs c) /\ ~ In s (build_chain (last_table_mask cfg))
    /\ forwarded_changed (build_chain (last_table_mask cfg)) c = false.
Proof. exact last_table_mask_incomplete. Qed.
Print Assumptions C04_stages_last_table_mask_refuted.
