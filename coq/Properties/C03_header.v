(** C03 — header fields of the serialized container: the declared length (8 bytes little endian at offset 3).
    "Structural validation of tags, lengths, envelope ids before use": for ALL byte strings that carry the
    container tag and a known envelope id, DeserializeEncryptedData accepts exactly when the declared length
    frames a part of the value (12 <= declared <= len) and then hands out exactly that frame; the reveal entry
    points and MatchDataSignature accept only when 12 < declared <= len.  Hence an edit of the length field of
    an honest container to ANY other value is rejected, or the envelope handler is given a proper prefix of the
    honest internal container (never the honest one).  Statements only. *)
From Acra Require Import Lib.Bytes Lib.Outcome Lib.Sha256 Crypto.Interface Crypto.Stub Gen.Consts Model.Envelope
  Proofs.Envelope Proofs.EnvelopeHeader.

(** DeserializeEncryptedData, every byte string with tag + known id ([sc_validate]); [sc_go_len] = len < 2^63 *)
Theorem C03_header_deserialize_accepts_iff :
  forall (enc : bytes) (id : byte) (inner : bytes) (id' : byte),
  sc_go_len enc -> sc_validate enc = Some id ->
  (sc_deserialize enc = Ok (inner, id') <->
   ((12 <= sc_declared enc)%N /\ (sc_declared enc <= N.of_nat (length enc))%N /\ id' = id /\
    inner = firstn (N.to_nat (sc_declared enc - 12)) (skipn SC_MIN_SIZE enc))).
Proof. exact sc_deserialize_new_iff. Qed.
Print Assumptions C03_header_deserialize_accepts_iff.

Theorem C03_header_deserialize_rejects :
  forall (enc : bytes) (id : byte),
  sc_go_len enc -> sc_validate enc = Some id ->
  ((sc_declared enc < 12)%N \/ (N.of_nat (length enc) < sc_declared enc)%N) ->
  sc_deserialize enc = Err E_GENERIC.
Proof. exact sc_deserialize_new_rejects. Qed.
Print Assumptions C03_header_deserialize_rejects.

(** DecryptWithHandler (= translator Decrypt/DecryptSym), any crypto, any handler, any keys *)
Theorem C03_header_reveal_needs_valid_length :
  forall (C : crypto) (id0 id : byte) (ks : keyset) (enc y : bytes),
  sc_go_len enc -> sc_validate enc = Some id0 ->
  decrypt_with_handler C id ks enc = Ok y ->
  (12 < sc_declared enc)%N /\ (sc_declared enc <= N.of_nat (length enc))%N /\
  let inner := firstn (N.to_nat (sc_declared enc - 12)) (skipn SC_MIN_SIZE enc) in
  handler_match id inner = true /\ handler_decrypt C id ks inner = Ok y.
Proof. exact decrypt_with_handler_declared. Qed.
Print Assumptions C03_header_reveal_needs_valid_length.

(** RegistryHandler.Process *)
Theorem C03_header_process_needs_valid_length :
  forall (C : crypto) (id0 : byte) (ks : keyset) (enc y : bytes),
  sc_go_len enc -> sc_validate enc = Some id0 ->
  registry_process C ks enc = Ok y ->
  (12 < sc_declared enc)%N /\ (sc_declared enc <= N.of_nat (length enc))%N.
Proof. exact registry_process_declared. Qed.
Print Assumptions C03_header_process_needs_valid_length.

(** RegistryHandler.MatchDataSignature *)
Theorem C03_header_match_needs_valid_length :
  forall (id0 : byte) (enc : bytes),
  sc_go_len enc -> sc_validate enc = Some id0 ->
  registry_match enc = true ->
  (12 < sc_declared enc)%N /\ (sc_declared enc <= N.of_nat (length enc))%N.
Proof. exact registry_match_declared. Qed.
Print Assumptions C03_header_match_needs_valid_length.

(** the honest container with its length field overwritten by d ([sc_relen]; d = 12 + |enc| is the honest
    one): the exact outcome of DeserializeEncryptedData for EVERY 64-bit value of the field *)
Theorem C03_header_length_field_outcome :
  forall (d : N) (enc : bytes) (id : byte),
  enc <> [] -> known_envelope id = true -> (d < M64N)%N -> (N.of_nat (length enc) < 4294967296)%N ->
  sc_deserialize (sc_relen d enc id) =
  if (12 <=? d)%N && (d <=? N.of_nat (SC_MIN_SIZE + length enc))%N
  then Ok (firstn (N.to_nat (d - 12)) enc, id) else Err E_GENERIC.
Proof. exact sc_deserialize_relen. Qed.
Print Assumptions C03_header_length_field_outcome.

(** any edit to a value other than the honest one: rejected, or a PROPER prefix of the honest internal
    container is framed (so the internal container changed) *)
Theorem C03_header_length_edit_detected_or_changes_container :
  forall (d : N) (enc : bytes) (id : byte),
  enc <> [] -> known_envelope id = true -> (d < M64N)%N -> (N.of_nat (length enc) < 4294967296)%N ->
  d <> N.of_nat (SC_MIN_SIZE + length enc) ->
  sc_deserialize (sc_relen d enc id) = Err E_GENERIC \/
  exists inner, sc_deserialize (sc_relen d enc id) = Ok (inner, id) /\
    inner = firstn (N.to_nat (d - 12)) enc /\ length inner < length enc /\
    (12 <= d)%N /\ (d < N.of_nat (SC_MIN_SIZE + length enc))%N.
Proof. exact sc_length_edit. Qed.
Print Assumptions C03_header_length_edit_detected_or_changes_container.

(** at the reveal entry point: whatever is revealed from the edited value was opened from a proper prefix of
    the honest internal container with 12 < d < honest (both envelope formats refuse that by their own length
    fields: Properties/C03.v; on the stand-in the premise is not satisfiable, see the examples below) *)
Theorem C03_header_length_edit_reveal :
  forall (C : crypto) (d : N) (enc : bytes) (id id' : byte) (ks : keyset) (y : bytes),
  enc <> [] -> known_envelope id = true -> (d < M64N)%N -> (N.of_nat (length enc) < 4294967296)%N ->
  d <> N.of_nat (SC_MIN_SIZE + length enc) ->
  decrypt_with_handler C id' ks (sc_relen d enc id) = Ok y ->
  (12 < d)%N /\ (d < N.of_nat (SC_MIN_SIZE + length enc))%N /\
  let inner := firstn (N.to_nat (d - 12)) enc in
  length inner < length enc /\ handler_match id' inner = true /\ handler_decrypt C id' ks inner = Ok y.
Proof. exact decrypt_with_handler_length_edit. Qed.
Print Assumptions C03_header_length_edit_reveal.

(** non-vacuity on the stand-in: an honest AcraBlock container (inner block [exh_enc]) *)
Definition exh_tape : list bytes := [repeat_bytes x07 32; repeat_bytes x03 12; repeat_bytes x04 12].
Definition exh_ks := Build_keyset None [] [repeat_bytes x55 32] None.
Definition exh_v : bytes := Eval vm_compute in
  match encrypt_with_handler Stub ENVELOPE_ID_ACRABLOCK exh_ks exh_tape [x41; x42; x43] with Ok v => v | _ => [] end.
Definition exh_enc : bytes := Eval vm_compute in skipn SC_MIN_SIZE exh_v.
Definition exh_honest : N := Eval vm_compute in N.of_nat (SC_MIN_SIZE + length exh_enc).

Example C03_header_example_honest :
  sc_validate exh_v = Some ENVELOPE_ID_ACRABLOCK /\ sc_declared exh_v = exh_honest /\
  decrypt_with_handler Stub ENVELOPE_ID_ACRABLOCK exh_ks exh_v = Ok [x41; x42; x43] /\
  registry_match exh_v = true.
Proof. split; [|split; [|split]]; vm_compute; reflexivity. Qed.

(** the length field set to 0, 11 (below the header), 12 (header only), honest+1, 2^64-1 *)
Example C03_header_example_edit_0 : sc_deserialize (sc_relen 0 exh_enc ENVELOPE_ID_ACRABLOCK) = Err E_GENERIC.
Proof. vm_compute; reflexivity. Qed.
Example C03_header_example_edit_11 : sc_deserialize (sc_relen 11 exh_enc ENVELOPE_ID_ACRABLOCK) = Err E_GENERIC.
Proof. vm_compute; reflexivity. Qed.
Example C03_header_example_edit_12 : sc_deserialize (sc_relen 12 exh_enc ENVELOPE_ID_ACRABLOCK) = Ok ([], ENVELOPE_ID_ACRABLOCK).
Proof. vm_compute; reflexivity. Qed.
Example C03_header_example_edit_max :
  sc_deserialize (sc_relen 18446744073709551615 exh_enc ENVELOPE_ID_ACRABLOCK) = Err E_GENERIC.
Proof. vm_compute; reflexivity. Qed.
Example C03_header_example_edit_11_refused :
  decrypt_with_handler Stub ENVELOPE_ID_ACRABLOCK exh_ks (sc_relen 11 exh_enc ENVELOPE_ID_ACRABLOCK) = Err E_GENERIC /\
  registry_match (sc_relen 11 exh_enc ENVELOPE_ID_ACRABLOCK) = false.
Proof. split; vm_compute; reflexivity. Qed.
