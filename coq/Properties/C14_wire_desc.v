(** C14 — RowDescription / ParameterDescription decoders, the handlers around them, the database-side step and the
    client-side start-up switch never panic and never allocate by a declared count (statements; Proofs/PgDesc.v). *)
From Acra Require Import Lib.Bytes Lib.Outcome Lib.GoSlice Gen.WireConsts Gen.WireDescConsts Model.PgWire Model.PgDesc
  Proofs.PgWire Proofs.PgDesc.
Local Open Scope N_scope.

(** for ALL byte strings: any declared field count (0 .. 65535; the count is an unsigned 16-bit value, it cannot be
    negative), names without terminator, truncation anywhere *)
Theorem C14_pg_rowdesc_decode_total : forall src : bytes, rd_decode src <> Panic.
Proof. exact rd_decode_total. Qed.
Print Assumptions C14_pg_rowdesc_decode_total.

(** the decoder keeps one field per 19 or more bytes actually present, whatever count is declared *)
Theorem C14_pg_rowdesc_decode_bounded : forall (src : bytes) fs, rd_decode src = Ok fs -> (2 + 19 * length fs <= length src)%nat.
Proof. exact rd_decode_bounded. Qed.
Print Assumptions C14_pg_rowdesc_decode_bounded.

Theorem C14_pg_paramdesc_decode_total : forall src : bytes, pd_decode src <> Panic.
Proof. exact pd_decode_total. Qed.
Print Assumptions C14_pg_paramdesc_decode_total.

Theorem C14_pg_paramdesc_decode_bounded : forall (src : bytes) oids, pd_decode src = Ok oids -> (2 + 4 * length oids <= length src)%nat.
Proof. exact pd_decode_bounded. Qed.
Print Assumptions C14_pg_paramdesc_decode_bounded.

(** the handlers, the code as found and the fixed code, ALL session items and ALL packets *)
Theorem C14_pg_handle_row_description_total : forall fixed items p, handle_row_description_with fixed items p <> Panic.
Proof. exact handle_row_description_with_total. Qed.
Print Assumptions C14_pg_handle_row_description_total.

Theorem C14_pg_handle_parameter_description_total : forall fixed items p, handle_parameter_description_with fixed items p <> Panic.
Proof. exact handle_parameter_description_with_total. Qed.
Print Assumptions C14_pg_handle_parameter_description_total.

(** ReadPacket + handleDatabasePacket + sendPacket on ALL streams, given a DataRow handler that does not panic
    ([process_datarow]: C14_pg_process_datarow_total) *)
Theorem C14_pg_db_step_total : forall ri pi row s, (forall q, row q <> Panic) -> db_step ri pi row s <> Panic.
Proof. exact db_step_total. Qed.
Print Assumptions C14_pg_db_step_total.

Example C14_pg_db_step_total_nonvacuous : forall ri pi fmts tr s, db_step ri pi (process_datarow fmts tr) s <> Panic.
Proof. intros. apply db_step_total. intros q. apply wire_pg_process_datarow_total. Qed.

Theorem C14_pg_read_client_total : forall started s, read_client started s <> Panic.
Proof. exact read_client_total. Qed.
Print Assumptions C14_pg_read_client_total.

Theorem C14_pg_db_first_total : forall s, db_first s <> Panic.
Proof. exact db_first_total. Qed.
Print Assumptions C14_pg_db_first_total.

(** the boundary inputs named in the property text are refused with an error, not accepted and not a panic *)
Example C14_pg_rowdesc_boundaries :
  rd_decode (hb 0x1) = Err E_DESC /\ rd_decode (hb 0x100) = Err E_DESC
  /\ rd_decode (hb 0x10000) = Ok []                                             (* count 0 *)
  /\ rd_decode (hb 0x1ffff) = Err E_DESC                                        (* count 65535 (-1 as int16), no field *)
  /\ rd_decode (hb 0x17fff) = Err E_DESC /\ rd_decode (hb 0x18000) = Err E_DESC
  /\ rd_decode (hb 0x100016964000000400000010000001700) = Err E_DESC           (* cut inside the fixed part *)
  /\ rd_decode (hb 0x100016964010000400000010000001700040000ffff0101) = Err E_DESC   (* name without terminator: the 0 bytes of the numbers stand in, then too short *)
  /\ rd_decode (hb 0x10001696401010140010101010101170104ffffffffff0101) = Err E_DESC (* no 0 byte at all *)
  /\ rd_decode (hb 0x100026964000000400000010000001700040000ffff0000) = Err E_DESC   (* count 2, one field *)
  /\ pd_decode (hb 0x100) = Err E_DESC /\ pd_decode (hb 0x1ffff) = Ok [] /\ pd_decode (hb 0x10000000000190909) = Ok [25].
Proof. repeat split; vm_compute; reflexivity. Qed.
