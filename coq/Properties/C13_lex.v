(** C13_lex — "Re-serialised statements mean the same as the statements received": the TOKENIZER link.
    C13_statements proves parse (print_stmt t) = Some t on TOKENS and that the pieces rendering to String(t) carry the
    tokens print_stmt t.  This file proves the missing link over the tokenizer model [SqlStmtText.lex] (the twin of
    sqlparser/token.go for comment-free text, replayed against the real Tokenizer by the domains c13s and c13lex):
      lex (stext t) = Some (print_stmt t),   hence   parse_bytes (stext t) = Some t,
    compositionally:
      (1) one rendering lemma per token class (keywords, raw names, identifiers plain / back-quoted / double-quoted
          per dialect, '..' with the sqltypes escape table, X'..' B'..' E'..', integral / float / 0x numbers, ?, :name,
          $n, ::casts, every operator and punctuation mark) — [C13_lex_token_rendering];
      (2) a DECIDABLE adjacency condition [adj_ok] = every piece is locally lexable ([loc], bind variables numbered
          in print order) and every neighbouring pair passes the adjacency table [stop_ok] ([sepd]);
      (3) induction over the piece list — [C13_lex_adjacent_pieces_lex_back];
      (4) the separator discipline of the Format methods: [sepd] holds for EVERY well-formed statement of both
          dialects — [C13_lex_separator_discipline_partial].
    PARTIAL: (a) the literal half [lits_ok] of the local condition is a premise of the end-to-end theorems: every
    literal / cast of the tree is spelled as the tokenizer can produce it (IntVal digits, FloatVal / HexNum as
    scanNumber reads them, X'..' even hex, B'..' bits, ValArg ":v<k>" numbered in print order or a ":name" kept
    verbatim, "$<digits>", a cast "::" + letter + letters / digits / dots); wf does not constrain these (value substitution can
    put anything there).  The identifier half is PROVED from wf ([C13_lex_identifiers_locally_lexable]); (b) one adjacent pair is refuted, not proved: an
    unquoted system variable used as a QUALIFIER ("@@a" '.'), see [C13_lex_sysvar_qualifier_refuted] (known finding
    lex-sysvar-qualifier); (c) text with comments and MySQL ANSI mode are outside [lex]. *)
From Acra Require Import Lib.Bytes Gen.Prec Gen.SqlWords Model.SqlStmt Model.SqlStmtParse Model.SqlStmtText Model.RunSqlStmt
  Proofs.SqlStmtRoundtrip Proofs.SqlStmtText Proofs.SqlLexRoundtripDefs Proofs.SqlLexRoundtripTok Proofs.SqlLexRoundtripSep Proofs.SqlLexRoundtripLoc.
From Coq Require Import Bool.

(** String(t) tokenized and parsed *)
Definition parse_bytes (pg : bool) (s : bytes) : option stmt :=
  match lex pg s with Some ts => parse pg ts | None => None end.

(** (1) token rendering: for every piece p that is not a space, every bind-variable counter nv and EVERY continuation
    [rest] whose first byte the stop kind of p admits, one Scan of (text of p ++ rest) returns the token of p, the
    new counter, and the continuation untouched *)
Theorem C13_lex_token_rendering :
  forall (pg : bool) (p : piece) (nv : N) (rest : bytes),
    p <> PS -> pok pg nv p = true -> stopb pg (skind pg p) (hd_opt rest) = true ->
    lex_one pg nv (piece_text pg p ++ rest) = Some (ptok pg p, nvn nv p, rest) /\ piece_toks pg p = [ptok pg p].
Proof. exact lex_one_piece. Qed.
Print Assumptions C13_lex_token_rendering.

(** the adjacency table is sound: a class-level verdict holds for every byte of the class *)
Theorem C13_lex_adjacency_table_sound :
  forall (pg : bool) (s : sk) (k : cls) (o : option byte),
    stop_ok pg false s k = true -> in_cls k o = true -> stopb pg s o = true.
Proof. exact stop_ok_sound. Qed.
Print Assumptions C13_lex_adjacency_table_sound.

(** (3) for EVERY piece list (any length) satisfying the decidable adjacency condition, the tokenizer reads the
    rendered bytes back as exactly the tokens of the pieces *)
Theorem C13_lex_adjacent_pieces_lex_back :
  forall (pg : bool) (ps : list piece), adj_ok pg ps = true -> lex pg (render pg ps) = Some (toks pg ps).
Proof. exact lex_render_pieces. Qed.
Print Assumptions C13_lex_adjacent_pieces_lex_back.

(** (2)+(4) separator discipline: for EVERY well-formed statement (both dialects, any depth) every piece the Format
    methods print is followed by a piece its stop kind admits; _partial: the pair ("@@x" unquoted, '.') is let
    through ([sepd pg true]) *)
Theorem C13_lex_separator_discipline_partial :
  forall (pg : bool) (t : stmt), wf_stmt pg t = true -> sepd pg true (pp_stmt t) KEnd = true.
Proof. exact sepd_stmt. Qed.
Print Assumptions C13_lex_separator_discipline_partial.

(** ... and strictly when no unquoted system variable is used as a qualifier *)
Theorem C13_lex_separator_discipline_strict :
  forall (pg : bool) (t : stmt),
    wf_stmt pg t = true -> sysq pg (pp_stmt t) = false -> sepd pg false (pp_stmt t) KEnd = true.
Proof. intros pg t W Q. apply sepd_strict; [reflexivity|apply sepd_stmt; exact W|exact Q]. Qed.
Print Assumptions C13_lex_separator_discipline_strict.

(** every identifier, alias, keyword and raw name (function names, charsets, interval units, convert types) the
    Format methods print for a well-formed statement is locally lexable, in both dialects *)
Theorem C13_lex_identifiers_locally_lexable :
  forall (pg : bool) (t : stmt), wf_stmt pg t = true -> forallb (idok pg) (pp_stmt t) = true.
Proof. exact ok_stmt. Qed.
Print Assumptions C13_lex_identifiers_locally_lexable.

(** ... so the local condition of a well-formed statement is the condition on its literals and casts *)
Theorem C13_lex_local_condition_of_wf :
  forall (pg : bool) (t : stmt) (nv : N),
    wf_stmt pg t = true -> lits_ok nv (pp_stmt t) = true -> loc pg nv (pp_stmt t) = true.
Proof. exact loc_of_wf. Qed.
Print Assumptions C13_lex_local_condition_of_wf.

(** the missing link of C13: the tokenizer applied to the BYTES String(t) yields exactly the printed tokens *)
Theorem C13_lex_statement_text_lexes_to_printed_tokens_partial :
  forall (pg : bool) (t : stmt),
    wf_stmt pg t = true -> lits_ok 0 (pp_stmt t) = true -> sysq pg (pp_stmt t) = false ->
    lex pg (stext pg t) = Some (print_stmt pg t).
Proof.
  intros pg t W L Q. unfold stext. rewrite <- (toks_pp_stmt pg t). apply lex_render_pieces.
  unfold adj_ok. rewrite (loc_of_wf pg t 0 W L). cbn [andb]. apply sepd_strict; [reflexivity|apply sepd_stmt; exact W|exact Q].
Qed.
Print Assumptions C13_lex_statement_text_lexes_to_printed_tokens_partial.

(** end to end over bytes: String(t), tokenized and parsed, is t again *)
Theorem C13_lex_statement_bytes_parse_back_partial :
  forall (pg : bool) (t : stmt),
    wf_stmt pg t = true -> lits_ok 0 (pp_stmt t) = true -> sysq pg (pp_stmt t) = false ->
    parse_bytes pg (stext pg t) = Some t.
Proof.
  intros pg t W L Q. unfold parse_bytes.
  rewrite (C13_lex_statement_text_lexes_to_printed_tokens_partial pg t W L Q). apply print_parse_roundtrip. exact W.
Qed.
Print Assumptions C13_lex_statement_bytes_parse_back_partial.

(** the literal premise cannot be dropped: a FloatVal "-1.5" under a prefix minus is well-formed on tokens
    (sql.y never builds it; a value substitution can) and prints as "--1.5", a comment *)
Definition kf_neg_float : stmt :=
  SSelect (Select false (SCons (SAliased (EUn UMinus (ELit VT_FloatVal (hb 0x12d312e35) [])) no_id) SNil)
             (TCons (TTable no_id (Id QNone (hb 0x174)) no_id) TNil) NoE XNil NoE ONil LNone LkNone).
Theorem C13_lex_unlexable_literal_refuted :
  exists t : stmt, wf_stmt false t = true /\ lits_ok 0 (pp_stmt t) = false /\ sysq false (pp_stmt t) = false
                   /\ lex false (stext false t) = None.
Proof. exists kf_neg_float. vm_compute. repeat split; reflexivity. Qed.
Print Assumptions C13_lex_unlexable_literal_refuted.

(* ---------- the refuted pair (known finding lex-sysvar-qualifier) ---------- *)
(** MySQL: select `@@a`.b from t — formatID leaves a name starting with "@@" unquoted, and the tokenizer reads
    "@@a.b" as ONE identifier: the qualifier is lost *)
Definition kf_sysq : stmt :=
  SSelect (Select false (SCons (SAliased (ECol [Id QNone (hb 0x1404061)] (Id QNone (hb 0x162))) no_id) SNil)
             (TCons (TTable no_id (Id QNone (hb 0x174)) no_id) TNil) NoE XNil NoE ONil LNone LkNone).
Theorem C13_lex_sysvar_qualifier_refuted :
  exists t t' : stmt,
    wf_stmt false t = true /\ lits_ok 0 (pp_stmt t) = true /\ sysq false (pp_stmt t) = true
    /\ parse false (print_stmt false t) = Some t
    /\ lex false (stext false t) <> Some (print_stmt false t)
    /\ parse_bytes false (stext false t) = Some t' /\ stmt_eqb t t' = false.
Proof.
  exists kf_sysq.
  exists (SSelect (Select false (SCons (SAliased (ECol [] (Id QNone (hb 0x14040612e62))) no_id) SNil)
             (TCons (TTable no_id (Id QNone (hb 0x174)) no_id) TNil) NoE XNil NoE ONil LNone LkNone)).
  split; [vm_compute; reflexivity|]. split; [vm_compute; reflexivity|]. split; [vm_compute; reflexivity|].
  split; [vm_compute; reflexivity|]. split; [vm_compute; discriminate|]. split; vm_compute; reflexivity.
Qed.
Print Assumptions C13_lex_sysvar_qualifier_refuted.

(* ---------- non-vacuity ---------- *)
(** select distinct a, t.* from t1 as p left join t2 on p.x = t2.x where a in (select b from u) and c = ? and d = - ~3::int
    group by a having count( * ) > 1.5e3 order by a desc limit 10 offset 2 *)
Definition ex_select : stmt :=
  SSelect (Select true (SCons (SAliased (ECol [] (I 0x161)) I0) (SCons (SStar [I 0x174]) SNil))
    (TCons (TJoin (TTable I0 (I 0x17431) (I 0x170)) JLeft (TTable I0 (I 0x17432) I0)
                  (JOn (ECmp CEq (ECol [I 0x170] (I 0x178)) (ECol [I 0x17432] (I 0x178))))) TNil)
    (SomeE (EAnd (EAnd (ECmp CIn (ECol [] (I 0x161))
                    (ESubq (Select false (SCons (SAliased (ECol [] (I 0x162)) I0) SNil) (TCons (TTable I0 (I 0x175) I0) TNil)
                                   NoE XNil NoE ONil LNone LkNone)))
                 (ECmp CEq (ECol [] (I 0x163)) (ELit 5 (hb 0x13a7631) [])))
                 (ECmp CEq (ECol [] (I 0x164)) (EUn UMinus (EUn UTilda (ELit 1 (hb 0x133) [hb 0x13a3a696e74]))))))
    (XCons (ECol [] (I 0x161)) XNil)
    (SomeE (ECmp CGt (EFunc I0 (hb 0x1636f756e74) false (SCons (SStar []) SNil)) (ELit 2 (hb 0x1312e356533) [])))
    (OCons (ECol [] (I 0x161)) DDesc ONil) (LOffset (ELit 1 (hb 0x13130) []) (ELit 1 (hb 0x132) [])) LkNone).
(** the 166-byte statement of C13_statements satisfies every premise, in both dialects *)
Example ex_lex_premises :
  wf_stmt false ex_select = true /\ lits_ok 0 (pp_stmt ex_select) = true /\ sysq false (pp_stmt ex_select) = false
  /\ adj_ok false (pp_stmt ex_select) = true /\ adj_ok true (pp_stmt ex_select) = true
  /\ parse_bytes false (stext false ex_select) = Some ex_select.
Proof. vm_compute. repeat split; reflexivity. Qed.
(** the adjacency condition is not trivially true: a number directly followed by a word, '-' '-', "a" '.' "1" *)
Example ex_adj_rejects :
  adj_ok false [PT (TLit VT_IntVal (hb 0x131)); PR (hb 0x161)] = false
  /\ adj_ok false [PT (TP PMinus); PT (TP PMinus); PT (TLit VT_IntVal (hb 0x131))] = false
  /\ adj_ok false [PT (TP PLt); PT (TP PEq)] = false
  /\ adj_ok false [PT (TLit VT_IntVal (hb 0x131)); PS; PR (hb 0x161)] = true
  /\ lex false (render false [PT (TLit VT_IntVal (hb 0x131)); PR (hb 0x161)]) = None
  /\ lex false (render false [PT (TP PLt); PT (TP PEq)]) = Some [TP PLe].
Proof. vm_compute. repeat split; reflexivity. Qed.
(** token rendering premises are satisfiable: a string literal ending in a backslash before a ')' *)
Example ex_token_rendering :
  pok false 0 (PT (TLit VT_StrVal (hb 0x1615c))) = true
  /\ stopb false (skind false (PT (TLit VT_StrVal (hb 0x1615c)))) (hd_opt (hb 0x129)) = true
  /\ lex_one false 0 (piece_text false (PT (TLit VT_StrVal (hb 0x1615c))) ++ hb 0x129) = Some (TLit VT_StrVal (hb 0x1615c), 0%N, hb 0x129).
Proof. vm_compute. repeat split; reflexivity. Qed.
