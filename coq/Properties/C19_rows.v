(** C19, row level (PostgreSQL proxy) — every cell of a delivered DataRow is the per-cell outcome of
    C19_typed_outcome_matrix under the result format that the protocol's rule assigns to ITS column.
    Only statements, closed by [exact], their assumptions and non-vacuity examples.
    Vocabulary (Proofs/TypedRows.v):
      [pg_result_binary fmts i] = PostgreSQL's rule for the result-format codes of a Bind message ([fmts = None]:
        simple protocol; [Some []]: all text; [Some [c]]: the ONE code applies to ALL columns; otherwise the code at
        the column's index; codes 0 = text, 1 = binary; [None] = the codes assign no format to the column);
      [handle_data_row fmts reveal cols] = PgProxy.handleQueryDataPacket on one DataRow ([cols]: per position the
        setting the statement analysis found, or none, and the cell, [None] = NULL; [reveal i] = the reveal step
        of column [i], ANY function);
      [cell_ok fmts reveal i c o] = [o] is what Model/Typed.v [pg_cell] makes of the cell of column [c] in the
        format [pg_result_binary fmts i], NULL for NULL. *)
From Acra Require Import Lib.Bytes Lib.Outcome Gen.TypedConsts Gen.TypedRowsConsts Model.Typed Model.TypedRows
  Model.RunTypedRows Proofs.TypedInt Proofs.Typed Proofs.TypedRows.
Local Open Scope N_scope.

(** GetParameterFormatByIndex is PostgreSQL's rule, for ALL code lists and ALL column indexes:
    the value is the format the rule assigns, an error exactly when it assigns none *)
Theorem C19_rows_format_rule :
  forall (i : nat) (codes : list N),
  format_by_index i codes =
  match pg_result_binary (Some codes) i with
  | Some b => Ok (if b then DATA_FORMAT_BINARY else DATA_FORMAT_TEXT)
  | None => Err (pg_format_error codes i)
  end.
Proof. exact format_by_index_spec. Qed.
Print Assumptions C19_rows_format_rule.

(** ... in particular ONE code is the format of EVERY column (the statement a client driver relies on when it
    asks for binary results with a single code) *)
Theorem C19_rows_one_code_all_columns :
  forall (c : N) (i j : nat), format_by_index i [c] = format_by_index j [c].
Proof. exact one_code_all_columns. Qed.
Print Assumptions C19_rows_one_code_all_columns.

(** the delivered row, for ALL rows, column counts, code lists, settings and reveal steps *)
Theorem C19_rows_cellwise :
  forall (fmts : option (list N)) (reveal : nat -> bytes -> option bytes) (cols : list column) (out : list (option bytes)),
  handle_data_row fmts reveal cols = Ok out ->
  length out = length cols /\
  forall (i : nat) (c : column), nth_error cols i = Some c -> cell_ok fmts reveal i c (nth_error out i).
Proof. exact rows_cellwise. Qed.
Print Assumptions C19_rows_cellwise.

(** typed protected column at ANY position of ANY row: the client receives the original encoded as the declared
    type in the format the rule gives to that column, or what the failure policy says; with the error policy
    such a row is not delivered at all.  Side conditions as in C19_typed_outcome_matrix. *)
Theorem C19_rows_typed_outcome :
  forall (fmts : option (list N)) (reveal : nat -> bytes -> option bytes) (cols : list column) (out : list (option bytes))
         (i : nat) (c : column) (s : setting) (k : tykind) (raw : bytes) (b : bool),
  handle_data_row fmts reveal cols = Ok out ->
  nth_error cols i = Some c -> col_setting c = Some s ->
  pg_result_binary fmts i = Some b ->
  col_cell c = Some (wire_of b raw) ->
  pg_encoder_for (s_type_id s) = Some k -> s_binop s = true -> s_type_aware s = true ->
  raw <> [] ->
  (is_int_kind k = true -> b = true -> length raw <> 4%nat /\ length raw <> 8%nat) ->
  match reveal i raw with
  | Some p => p <> [] -> nth_error out i = Some (Some (typed_repr k b p))
  | None =>
      (is_int_kind k = true -> parse_int (int_bits k) raw = None) ->
      match s_policy s with
      | PEmpty | PCiphertext => nth_error out i = Some (Some (cipher_repr k b raw))
      | PDefault =>
          match s_default s with
          | Some d => validate_default k d = true -> nth_error out i = Some (Some (default_repr k b d))
          | None => nth_error out i = Some (Some (cipher_repr k b raw))
          end
      | PError | PBad => False
      end
  end.
Proof. exact rows_typed_outcome. Qed.
Print Assumptions C19_rows_typed_outcome.

(** never a partial row: a column whose cell has no outcome (error policy, undecodable cell, codes that assign
    no format to it) means NO row *)
Theorem C19_rows_never_partial :
  forall (fmts : option (list N)) (reveal : nat -> bytes -> option bytes) (cols : list column) (i : nat) (c : column) (data : bytes),
  nth_error cols i = Some c -> col_cell c = Some data ->
  (forall b v, pg_result_binary fmts i = Some b ->
               pg_cell (setting_or_empty (col_setting c)) b (reveal i) data <> Ok v) ->
  forall out, handle_data_row fmts reveal cols <> Ok out.
Proof. exact rows_never_partial. Qed.
Print Assumptions C19_rows_never_partial.

Theorem C19_rows_error_policy :
  forall (fmts : option (list N)) (reveal : nat -> bytes -> option bytes) (cols : list column)
         (i : nat) (c : column) (s : setting) (k : tykind) (raw : bytes) (b : bool),
  nth_error cols i = Some c -> col_setting c = Some s ->
  pg_result_binary fmts i = Some b ->
  col_cell c = Some (wire_of b raw) ->
  pg_encoder_for (s_type_id s) = Some k -> s_binop s = true -> s_type_aware s = true ->
  raw <> [] ->
  (is_int_kind k = true -> b = true -> length raw <> 4%nat /\ length raw <> 8%nat) ->
  reveal i raw = None ->
  (is_int_kind k = true -> parse_int (int_bits k) raw = None) ->
  s_policy s = PError ->
  forall out, handle_data_row fmts reveal cols <> Ok out.
Proof. exact rows_error_policy. Qed.
Print Assumptions C19_rows_error_policy.

(** the other columns: a column without setting in which there is nothing to reveal, and NULL cells *)
Theorem C19_rows_unprotected_unchanged :
  forall (fmts : option (list N)) (reveal : nat -> bytes -> option bytes) (cols : list column) (out : list (option bytes))
         (i : nat) (c : column) (data : bytes),
  handle_data_row fmts reveal cols = Ok out ->
  nth_error cols i = Some c -> col_setting c = None -> col_cell c = Some data ->
  (forall d, reveal i d = None) ->
  (decode_escaped data <> Ok [] \/ data = []) ->
  nth_error out i = Some (Some data).
Proof. exact rows_unprotected_unchanged. Qed.
Print Assumptions C19_rows_unprotected_unchanged.

Theorem C19_rows_null_kept :
  forall (fmts : option (list N)) (reveal : nat -> bytes -> option bytes) (cols : list column) (out : list (option bytes))
         (i : nat) (c : column),
  handle_data_row fmts reveal cols = Ok out ->
  nth_error cols i = Some c -> col_cell c = None -> nth_error out i = Some None.
Proof. exact rows_null_kept. Qed.
Print Assumptions C19_rows_null_kept.

(** the codes and the column count agree: then the row IS delivered as soon as every cell has an outcome *)
Theorem C19_rows_delivered :
  forall (fmts : option (list N)) (reveal : nat -> bytes -> option bytes) (cols : list column),
  (forall i, (i < length cols)%nat -> exists b, pg_result_binary fmts i = Some b) ->
  (forall codes i, fmts = Some codes -> (i < length codes)%nat -> exists b, pg_result_binary fmts i = Some b) ->
  (forall i c data b, nth_error cols i = Some c -> col_cell c = Some data -> pg_result_binary fmts i = Some b ->
                      exists v, pg_cell (setting_or_empty (col_setting c)) b (reveal i) data = Ok v) ->
  exists out, handle_data_row fmts reveal cols = Ok out.
Proof. exact rows_delivered. Qed.
Print Assumptions C19_rows_delivered.

(** * Non-vacuity: SELECT id, owner, balance with ONE result-format code "binary"; balance is int32, third *)
Definition ex_balance : setting := mk_setting 23 PDefault (Some [x2d; x34; x32]) true true.   (* default -42 *)
Definition ex_raw : bytes := [x25; x25; x25; x01; x02; x03; xff; x00; x5c].                      (* stored *)
Definition ex_plain : bytes := [x2d; x31; x32; x33; x34; x35; x36; x37].                         (* "-1234567" *)
Definition ex_id : bytes := [x00; x00; x00; x07].
Definition ex_owner : bytes := [x61; x6c; x69; x63; x65].
Definition ex_row : list column :=
  [mk_col None (Some ex_id); mk_col None (Some ex_owner); mk_col (Some ex_balance) (Some ex_raw)].
Definition ex_reveal_owner (i : nat) (d : bytes) : option bytes := if bytes_eqb d ex_raw then Some ex_plain else None.

Example ex_rule :
  pg_result_binary (Some [1]) 2 = Some true /\ pg_result_binary (Some [0; 0; 1]) 2 = Some true /\
  pg_result_binary (Some [1; 1; 0]) 2 = Some false /\ pg_result_binary (Some []) 2 = Some false /\
  pg_result_binary (Some [1; 1]) 2 = None /\ pg_result_binary (Some [2]) 2 = None /\ pg_result_binary None 2 = Some false.
Proof. vm_compute. repeat split; reflexivity. Qed.
(** the owner, one code "binary": int4 big endian in the THIRD column, the others untouched *)
Example ex_one_code_binary_owner :
  handle_data_row (Some [1]) ex_reveal_owner ex_row = Ok [Some ex_id; Some ex_owner; Some [xff; xed; x29; x79]].
Proof. vm_compute. reflexivity. Qed.
Example ex_one_code_binary_default :
  handle_data_row (Some [1]) (fun _ _ => None) ex_row = Ok [Some ex_id; Some ex_owner; Some [xff; xff; xff; xd6]].
Proof. vm_compute. reflexivity. Qed.
Example ex_per_column_text_owner :
  handle_data_row (Some [1; 0; 0]) ex_reveal_owner
    [mk_col None (Some ex_id); mk_col None (Some ex_owner); mk_col (Some ex_balance) (Some (pg_hex ex_raw))]
  = Ok [Some ex_id; Some ex_owner; Some ex_plain].
Proof. vm_compute. reflexivity. Qed.
Example ex_error_policy_no_row :
  handle_data_row (Some [1]) (fun _ _ => None)
    [mk_col None (Some ex_id); mk_col (Some (mk_setting 23 PError None true true)) (Some ex_raw); mk_col None None]
  = Err E_ENCODING.
Proof. vm_compute. reflexivity. Qed.
Example ex_too_few_codes : handle_data_row (Some [1; 1]) ex_reveal_owner ex_row = Err E_NOT_ENOUGH_FORMATS.
Proof. vm_compute. reflexivity. Qed.
Example ex_premises :
  nth_error ex_row 2 = Some (mk_col (Some ex_balance) (Some (wire_of true ex_raw))) /\
  pg_encoder_for (s_type_id ex_balance) = Some TInt4 /\ ex_raw <> [] /\ length ex_raw <> 4%nat /\ length ex_raw <> 8%nat /\
  ex_reveal_owner 2 ex_raw = Some ex_plain /\ parse_int 32 ex_raw = None /\ decode_escaped ex_owner = Ok ex_owner.
Proof. vm_compute. repeat split; congruence. Qed.

(** the side condition of C19_rows_unprotected_unchanged is exact: a text value of a column WITHOUT setting that
    is the two characters backslash-x comes back empty, and one that starts with backslash-x without being hex
    ends the session (a non-encoding error), in both result formats (class unprotected-hexlike-value) *)
Theorem C19_rows_unprotected_hexlike_refuted :
  exists (d1 d2 : bytes),
    handle_data_row (Some []) (fun _ _ => None) [mk_col None (Some d1)] = Ok [Some []] /\ d1 <> [] /\
    handle_data_row (Some [1]) (fun _ _ => None) [mk_col None (Some d2)] = Err E_HEX.
Proof. exact rows_unprotected_hexlike_refuted. Qed.
Print Assumptions C19_rows_unprotected_hexlike_refuted.
