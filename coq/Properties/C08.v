(** C08: a crash or I/O failure during a keystore write never loses or corrupts keys (keystore v2).
    Hypotheses (explicit in the model, Model/KeystoreWrite.v): every back-end call is atomic, Rename is
    atomic and replaces its target, a completed Put is durable, a torn write leaves a strict prefix
    only in the NEW file being created, and such a prefix does not verify. *)
From Acra Require Import Lib.Bytes Lib.Outcome Gen.KswConsts Model.KeystoreWrite Model.RunKeystoreWrite Proofs.KeystoreWrite.
Local Open Scope Z_scope.

(** For EVERY well-formed storage [st] (= every storage reachable by any history of faulted
    operations, see C08_wf_reachable), every operation, every fault point and kind [f]:
    the storage left behind (after an error return or a crash) is well formed, the files of all
    other rings are untouched (i), the ring being written is its old self or a complete valid new
    state (ii) in which every key that the operation does not itself write reads the same value. *)
Theorem C08_v2_write_crash_safe :
  forall st, wf st ->
    (forall rid f, step_inv rid (open_P st rid) st (after (exec (open_key_ring_rw rid) f st 0))) /\
    (forall h o f txs s,
        h_log h = [] -> snap_ok h st -> prepare h o = Ok (txs, s) ->
        step_inv (h_path h) (upd_P st (h_path h) txs) st (after (exec (ring_op h o) f st 0)) /\
        (forall r r', stored_ring st (h_path h) = Some r -> upd_P st (h_path h) txs r' ->
           ring_ok r' /\ (exists ext, seqs r' = seqs r ++ ext) /\
           forall s' v, (forall t, In t txs -> tx_target t <> Some s') -> key_value r s' = Ok v -> key_value r' s' = Ok v)) /\
    (forall rid ord f, evolves rid st (after (exec (gen_key rid ord) f st 0))).
Proof.
  intros st Hwf. split; [|split].
  - intros rid f. exact (open_crash_safe st rid f Hwf).
  - intros h o f txs s Hlog Hsnap Hp. split.
    + exact (ring_op_crash_safe st h o f txs s Hwf Hlog Hsnap Hp).
    + intros r r'. exact (committed_update_keeps_keys st h o txs s r r' Hwf Hsnap Hp).
  - intros rid ord f. exact (gen_key_crash_safe rid ord st f Hwf).
Qed.
Print Assumptions C08_v2_write_crash_safe.

(** (iii) recovery = a fresh handle on a well-formed storage: listing succeeds, every ring reads,
    and a FOLLOWING write (generate: open, AddKey, SetCurrent) succeeds on any ring - even with a
    stale "<ring>.keyring.new" left by the fault - and the new key reads back as current. *)
Theorem C08_v2_recovered_storage_accepts :
  forall st, wf st ->
    (exists l k, exec list_keys None st 0 = Ret (Ok l) st k) /\
    (forall rid r k, stored_ring st rid = Some r ->
        exec (open_key_ring rid) None st k = Ret (Ok tt, mk_hring rid r []) st (S (S (S k)))) /\
    (forall rid ord, ord <> 0%N ->
        exists s st' k r', exec (gen_key rid ord) None st 0 = Ret (Ok s) st' k /\ wf st' /\
          stored_ring st' rid = Some r' /\ r_cur r' = s /\ key_value r' s = Ok ord /\
          (forall x, x <> rid -> lookup (FRing x) st' = lookup (FRing x) st)).
Proof.
  intros st Hwf. split; [exact (wf_list_ok st Hwf)|]. split.
  - intros rid r k. exact (open_ro_ok st rid r k).
  - intros rid ord. exact (wf_accepts_write st rid ord Hwf).
Qed.
Print Assumptions C08_v2_recovered_storage_accepts.

(** every prior history: any sequence of operations, each with any fault *)
Theorem C08_wf_reachable : forall st, reachable st -> wf st.
Proof. exact reachable_wf. Qed.
Print Assumptions C08_wf_reachable.

Theorem C08_seqnums_increasing : forall r, ring_ok r -> incr (seqs r).
Proof. exact ring_ok_incr. Qed.
Print Assumptions C08_seqnums_increasing.

(** non-vacuity: a well-formed storage with a ring of two keys AND a stale, torn ".new" file *)
Example C08_ex_wf : wf ex_st.
Proof. exact ex_wf. Qed.

(** generate with a crash right after the Put of "<ring>.keyring.new" of its AddKey (call 7: Lock Get Unlock, Lock Get Put=ErrExist Remove Put): the
    complete temporary stays behind, the ring is its old self; a following generate succeeds *)
Example C08_ex_crash_then_write :
  let st1 := after (exec (gen_key 1 7) (Some (7%nat, KCrashAfter)) ex_st 0) in
  lookup (FRingNew 1) st1 = Some (CRing true (mk_ring [mk_kent 1 1 5; mk_kent 2 1 6; mk_kent 3 KSW_PREACTIVE 7] 2)) /\
  stored_ring st1 1 = Some ex_ring /\
  exists st2 k, exec (gen_key 1 8) None st1 0 = Ret (Ok 3) st2 k /\
                stored_ring st2 1 = Some (mk_ring [mk_kent 1 1 5; mk_kent 2 1 6; mk_kent 3 KSW_PREACTIVE 8] 3) /\
                lookup (FRingNew 1) st2 = None.
Proof. vm_compute. split; [reflexivity|]. split; [reflexivity|]. eexists _, _. repeat split; reflexivity. Qed.

(** an I/O error at the Rename of SetCurrent: the error is returned, the in-memory ring is rolled
    back to the stored one and no transaction stays pending (txlog_rolled_back on an instance) *)
Example C08_ex_txlog_rolled_back :
  exists st' k, exec (ring_op (mk_hring 1 ex_ring []) (WSetCurrent 1)) (Some (4%nat, KErr)) ex_st 0
                = Ret (Err E_IO, mk_hring 1 ex_ring []) st' k /\ stored_ring st' 1 = Some ex_ring.
Proof. vm_compute. eexists _, _. split; reflexivity. Qed.

(** the replay function used by the correspondence check is the model the theorems are about *)
Example C08_ex_run :
  run (Scenario [] (KGen 1 7) None (KGen 1 8)) <> XErr.
Proof. vm_compute. discriminate. Qed.
