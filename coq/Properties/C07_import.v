(** C07 — "each stored key is bound to its owner" on the v1 IMPORT path: the sealing context of every key
    KeyBackuper.Import writes is computed from the FILE NAME (keystore/filesystem/filesystem_backup.go
    getContextFromFilename).  Only statements, closed by [exact], and their assumptions.
    Models: Model/KeyImport.v (byte-level isPrivate / getContextFromFilename / filepath.Base / Import loop,
    histories of the v1 key store of Model/KeyAtRest.v extended with Import; CHECKED: replayed by the domain
    c07imp), Model/KeyNames.v (file-name builders [name_v1] and id validation [valid_id] over the regenerated
    Gen/KeyNames.v).  [isHistoricalFilename] (time.Parse) is an observed input: the theorems are about
    current-key names ([historical = false], which the replay confirms for every such name). *)
From Acra Require Import Lib.Bytes Lib.Outcome Crypto.Interface Crypto.Stub Gen.KsConsts Gen.KeyImportConsts Gen.KeyNames.
From Acra Require Import Model.KeyNames.
From Acra Require Import Model.Path Model.KeyAtRest Model.Backup Model.KeyImport Proofs.KeyAtRest Proofs.KeyImport.

(** getContextFromFilename never panics and never fails: every slice fname[:len(fname)-len(suffix)] is
    guarded by the HasSuffix before it — for ALL names (any bytes) and both values of the historical flag *)
Theorem C07_import_context_total :
  forall (historical : bool) (name : bytes), exists pc, get_context_from_filename historical name = Ok pc.
Proof. exact get_context_total. Qed.
Print Assumptions C07_import_context_total.

(** getContextFromFilename INVERTS the file-name builder: for EVERY valid client id (regenerated id
    validation) — ids that contain "_storage", "_hmac", "_server", "_translator", "_storage_sym", "_sym",
    "_zone" anywhere included — and every private key kind with a suffix of its own (storage private,
    storage symmetric, HMAC, legacy server / translator), the context of the name built for that id is
    exactly that id (with the purpose of the kind), and isPrivate classifies the name as private *)
Theorem C07_import_context_inverts_name :
  forall (p : Model.KeyNames.v1_purpose) (purpose id : bytes),
  chain_purpose p = Some purpose -> valid_id id = true ->
  get_context_from_filename false (name_v1 p id) = Ok (purpose, id) /\
  is_private_file false (name_v1 p id) = true.
Proof. exact context_inverts_name. Qed.
Print Assumptions C07_import_context_inverts_name.

(** … the same for every id without a path separator (valid or not) *)
Theorem C07_import_context_inverts_name_sepfree :
  forall (p : Model.KeyNames.v1_purpose) (purpose id : bytes),
  chain_purpose p = Some purpose -> sepfree_b id = true ->
  get_context_from_filename false (name_v1 p id) = Ok (purpose, id) /\
  is_private_file false (name_v1 p id) = true.
Proof. exact context_inverts_name_sepfree. Qed.
Print Assumptions C07_import_context_inverts_name_sepfree.

(** public key files are never classified private (Import writes them as they are) *)
Theorem C07_import_public_not_private :
  forall (p : Model.KeyNames.v1_purpose) (id : bytes),
  public_purpose p = true -> sepfree_b id = true -> is_private_file false (name_v1 p id) = false.
Proof. exact public_name_not_private. Qed.
Print Assumptions C07_import_public_not_private.

(** the one private kind outside the inversion theorem, REFUTED for it: the legacy AcraConnector private
    key file is the bare client id, so the name of client "north_storage" is the storage-key name of client
    "north" and its context is "north" (known finding keyname-collision-legacy-connector, C02) *)
Theorem C07_import_context_connector_refuted :
  exists id purpose c, valid_id id = true /\ v1_connector ConnPriv = true /\
    get_context_from_filename false (name_v1 ConnPriv id) = Ok (purpose, c) /\ c <> id.
Proof. exact context_connector_refuted. Qed.
Print Assumptions C07_import_context_connector_refuted.

(** what Import writes for a selected key of client [id]: ONE seal under the target's master key whose
    associated data is [id], at filepath.Join(key directory, name) *)
Theorem C07_import_seals_for_owner :
  forall (m d : bytes) (p : Model.KeyNames.v1_purpose) (purpose id content n : bytes) (tape : list bytes) (r : list ikey),
  chain_purpose p = Some purpose -> validate_id id = true -> m <> [] -> content <> [] ->
  import_loop m d (n :: tape) (mk_ikey (name_v1 p id) content false :: r) =
  (let '(es, rest) := import_loop m d tape r in ((SFile (join2 d (name_v1 p id)), Sealed m id n content) :: es, rest)).
Proof. exact import_seals_for_owner. Qed.
Print Assumptions C07_import_seals_for_owner.

(** stored_secrets_sealed extended to histories with Import: for ALL histories of Generate* / Get* /
    CopyFile / Reset / Import (bundles whose key names were built by the name builders for validated ids),
    all tapes, starting states and crypto instances, every content handed to Storage.WriteFile / cache.Add
    is a seal under the sink's key whose associated data is the validated OWNER id of the name it is stored
    under — or clear bytes under a public-key name *)
Theorem C07_stored_secrets_sealed_with_import :
  forall (C : crypto) (g : cfg) (s : st) (tape : list bytes) (ops : list iop) (e : event),
  Forall wf_iop ops -> In e (itrace C g s tape ops) -> ievent_ok g e.
Proof. exact stored_secrets_sealed_with_import. Qed.
Print Assumptions C07_stored_secrets_sealed_with_import.

(** owner binding of an imported file (reduction): a file written by Import, copied / renamed to the name
    of ([k2],[id2]) and loaded by the key store's own read path with a cold cache, loads only if it was
    imported under a name of [id2] itself — or an AEAD forgery (a seal opening under other associated
    data) is exhibited *)
Theorem C07_imported_file_bound_to_owner :
  forall (C : crypto) (g : cfg) (s : st) (tape tape' : list bytes) (keys : list ikey) (snk : sink)
         (key ctx n content : bytes) (k2 : v1kind) (id2 v : bytes),
  Forall wf_ikey keys ->
  In (snk, Sealed key ctx n content) (fst (import_loop (master g) (key_dir g) tape' keys)) ->
  lookup (priv_path g k2 id2) (files s) = Some (encode C (Sealed key ctx n content)) ->
  lookup (v1_fname k2 id2) (cache s) = None ->
  o_res (load_secret C g s tape k2 id2) = Ok v ->
  (exists p, secret_purpose p = true /\ snk = SFile (join2 (key_dir g) (name_v1 p id2))) \/ forgery C.
Proof. exact imported_file_bound_to_owner. Qed.
Print Assumptions C07_imported_file_bound_to_owner.

(** non-vacuity: a valid id that CONTAINS the suffix of its own key kind; the shorter identity a
    first-occurrence cut would produce is another valid id; the witness history satisfies [wf_iop],
    produces events, the imported key loads for its owner and is refused when copied to the shorter id *)
Example C07_import_suffix_id_example :
  (valid_id w_long = true /\ validate_id w_long = true) /\
  get_context_from_filename false (name_v1 StoragePriv w_long) = Ok (CTX_PURPOSE_STORAGE, w_long) /\
  (valid_id w_north = true /\ w_north <> w_long /\ starts_with w_north w_long = true).
Proof. split; [exact w_long_valid|]. split; [exact w_long_context| exact w_short_is_other_identity]. Qed.
Example C07_import_history_example :
  Forall wf_iop w_imp_ops /\
  length (itrace Stub w_imp_cfg st0 w_imp_tape w_imp_ops) = 3 /\
  map o_res (irun_hist Stub w_imp_cfg st0 w_imp_tape w_imp_ops) =
  [Ok []; Ok []; Ok (repeat_bytes x41 45); Ok []; Ok []; Err E_DECRYPTION].
Proof. split; [exact w_imp_wf|]. split; [exact w_imp_trace_nonempty| exact w_imp_run]. Qed.
