(** Abstract view of the Themis primitives acra calls (Secure Cell Seal, Secure Message
    in encrypt mode, EC key pairs).  Models are functions of a [crypto] record; theorems
    take [Correct C] as a hypothesis.  Nothing here is an axiom: [Crypto/Stub.v] gives a
    concrete instance (the byte-exact twin of /verif/harness/gothemis) and proves
    [Correct] for it. *)
From Acra Require Import Lib.Bytes.

Record crypto := {
  seal_enc : bytes -> bytes -> bytes -> bytes -> bytes;        (* key ctx nonce msg *)
  seal_dec : bytes -> bytes -> bytes -> option bytes;          (* key ctx ciphertext *)
  keypair  : bytes -> bytes * bytes;                           (* seed -> (private, public) *)
  wrap     : bytes -> bytes -> bytes -> bytes -> option bytes; (* priv peer_pub nonce msg *)
  unwrap   : bytes -> bytes -> bytes -> option bytes           (* priv peer_pub ciphertext *)
}.

Definition priv_of (C : crypto) (seed : bytes) := fst (keypair C seed).
Definition pub_of (C : crypto) (seed : bytes) := snd (keypair C seed).

(** Go-side argument checks of gothemis (cell.SealWithKey / Encrypt / Decrypt,
    message.Wrap / Unwrap): empty key or message is rejected before the primitive runs. *)
Definition is_nil {A} (l : list A) : bool := match l with [] => true | _ => false end.

Definition cell_encrypt (C : crypto) (key ctx nonce msg : bytes) : option bytes :=
  if is_nil key || is_nil msg then None else Some (seal_enc C key ctx nonce msg).
Definition cell_decrypt (C : crypto) (key ctx ct : bytes) : option bytes :=
  if is_nil key || is_nil ct then None else seal_dec C key ctx ct.
Definition msg_wrap (C : crypto) (priv pub nonce msg : bytes) : option bytes :=
  if is_nil priv || is_nil pub || is_nil msg then None else wrap C priv pub nonce msg.
Definition msg_unwrap (C : crypto) (priv pub ct : bytes) : option bytes :=
  if is_nil priv || is_nil pub || is_nil ct then None else unwrap C priv pub ct.

Definition SEAL_OVERHEAD : nat := 44.
Definition WRAP_OVERHEAD : nat := 52.
Definition NONCE_LEN : nat := 12.
Definition SEED_LEN : nat := 32.
Definition ECKEY_LEN : nat := 45.
Definition MAXMSG : N := 4294967296 - 1024.

Record Correct (C : crypto) : Prop := {
  seal_len : forall k c r m, length r = NONCE_LEN ->
      length (seal_enc C k c r m) = SEAL_OVERHEAD + length m;
  seal_rt : forall k c r m, k <> [] -> m <> [] -> length r = NONCE_LEN ->
      (N.of_nat (length m) < MAXMSG)%N ->
      seal_dec C k c (seal_enc C k c r m) = Some m;
  seal_dec_len : forall k c x m, seal_dec C k c x = Some m ->
      length x = SEAL_OVERHEAD + length m /\ m <> [];
  key_len : forall s, length s = SEED_LEN ->
      length (priv_of C s) = ECKEY_LEN /\ length (pub_of C s) = ECKEY_LEN;
  wrap_rt : forall sa sb r m, length sa = SEED_LEN -> length sb = SEED_LEN ->
      length r = NONCE_LEN -> m <> [] -> (N.of_nat (length m) < MAXMSG)%N ->
      exists w, wrap C (priv_of C sa) (pub_of C sb) r m = Some w /\
                length w = WRAP_OVERHEAD + length m /\
                unwrap C (priv_of C sb) (pub_of C sa) w = Some m
}.

Lemma is_nil_false {A} (l : list A) : l <> [] -> is_nil l = false.
Proof. destruct l; [contradiction| reflexivity]. Qed.
Lemma is_nil_len {A} (l : list A) n : length l = S n -> is_nil l = false.
Proof. destruct l; [discriminate| reflexivity]. Qed.
