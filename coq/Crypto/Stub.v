(** Byte-exact Gallina twin of /verif/harness/gothemis/core/core.go, and the proof
    that it satisfies [Correct].  NOT a secure scheme: FNV-1a keystream and tag. *)
From Acra Require Import Lib.Bytes Crypto.Interface.
From Coq Require Import ZifyN ZifyNat ZifyBool.
Local Open Scope N_scope.

Definition M64 : N := 18446744073709551616.
Definition fnv_prime : N := 0x100000001b3.
Definition fnv_basis_a : N := 0xcbf29ce484222325.
Definition fnv_basis_b : N := 0x84222325cbf29ce4.

(* one absorption step: xor the byte in, multiply by the odd constant 1 + 2^13 + 2^40
   (as shifts and adds, cheap under vm_compute), fold the high bits down *)
Definition fnv_step (h : N) (b : byte) : N :=
  let h1 := N.lxor h (b2n b) in
  let h2 := N.land (h1 + N.shiftl h1 13 + N.shiftl h1 40) (M64 - 1) in
  N.lxor h2 (N.shiftr h2 29).
Definition fnv (basis : N) (bs : bytes) : N := fold_left fnv_step bs basis.

Definition le32 (n : nat) : bytes := le_enc 4 (N.of_nat n).
Definition le64 (n : N) : bytes := le_enc 8 n.

(** [n] bytes of keystream: blocks LE64(fnv_a(key ++ nonce ++ LE64 i)) *)
Fixpoint keystream_blocks (key nonce : bytes) (i : N) (nblocks : nat) : bytes :=
  match nblocks with
  | O => []
  | S n' => le64 (fnv fnv_basis_a (key ++ nonce ++ le64 i)) ++ keystream_blocks key nonce (i + 1) n'
  end.
Definition keystream (key nonce : bytes) (n : nat) : bytes :=
  firstn n (keystream_blocks key nonce 0 (Nat.div (n + 7) 8)).

Definition stub_tag (key ctx nonce msg : bytes) : bytes :=
  let x := le32 (length key) ++ key ++ le32 (length ctx) ++ ctx ++ nonce ++ msg in
  le64 (fnv fnv_basis_a x) ++ le64 (fnv fnv_basis_b x).

Definition seal_magic : bytes := [x00; x01; x01; x40; x0c; x00; x00; x00; x10; x00; x00; x00].
Definition wrap_magic : bytes := [x20; x27; x04; x26].

Definition stub_seal_enc (key ctx nonce msg : bytes) : bytes :=
  seal_magic ++ le32 (length msg) ++ nonce ++ stub_tag key ctx nonce msg
    ++ xor_bytes msg (keystream key nonce (length msg)).

Definition stub_seal_dec (key ctx ct : bytes) : option bytes :=
  if Nat.leb (length ct) SEAL_OVERHEAD then None
  else if negb (bytes_eqb (firstn 12 ct) seal_magic) then None
  else if negb (N.eqb (le_dec (sub 12 4 ct)) (N.of_nat (length ct - SEAL_OVERHEAD))) then None
  else
    let nonce := sub 16 12 ct in
    let body := skipn SEAL_OVERHEAD ct in
    let msg := xor_bytes body (keystream key nonce (length body)) in
    if bytes_eqb (stub_tag key ctx nonce msg) (sub 28 16 ct) then Some msg else None.

Definition tag_rec2 : bytes := [x52; x45; x43; x32].
Definition tag_uec2 : bytes := [x55; x45; x43; x32].
Definition crc4 (body : bytes) : bytes := firstn 4 (le64 (fnv fnv_basis_a body)).

Definition stub_keypair (seed : bytes) : bytes * bytes :=
  let priv_body := x00 :: seed in
  let pub_body := x02 :: map (fun b => bxor b x5a) seed in
  (tag_rec2 ++ [x00; x00; x00; x2d] ++ crc4 priv_body ++ priv_body,
   tag_uec2 ++ [x00; x00; x00; x2d] ++ crc4 pub_body ++ pub_body).

Definition valid_key (k tagname : bytes) (first : byte) : bool :=
  Nat.eqb (length k) ECKEY_LEN
  && bytes_eqb (firstn 8 k) (tagname ++ [x00; x00; x00; x2d])
  && bytes_eqb (sub 12 1 k) [first]
  && bytes_eqb (sub 8 4 k) (crc4 (skipn 12 k)).

Definition valid_priv k := valid_key k (tag_rec2) x00.
Definition valid_pub k := valid_key k (tag_uec2) x02.

Fixpoint xor3 (a b : bytes) : bytes :=
  match a, b with
  | x :: a', y :: b' => bxor (bxor x y) x5a :: xor3 a' b'
  | _, _ => []
  end.

Definition stub_shared (priv pub : bytes) : option bytes :=
  if valid_priv priv && valid_pub pub then Some (xor3 (skipn 13 priv) (skipn 13 pub)) else None.

Definition stub_wrap (priv pub nonce msg : bytes) : option bytes :=
  match stub_shared priv pub with
  | None => None
  | Some s => Some (wrap_magic ++ le32 (length msg + SEAL_OVERHEAD + 8) ++ stub_seal_enc s [] nonce msg)
  end.

Definition stub_unwrap (priv pub ct : bytes) : option bytes :=
  match stub_shared priv pub with
  | None => None
  | Some s =>
      if Nat.leb (length ct) (8 + SEAL_OVERHEAD) then None
      else if negb (bytes_eqb (firstn 4 ct) wrap_magic) then None
      else if negb (N.eqb (le_dec (sub 4 4 ct)) (N.of_nat (length ct))) then None
      else stub_seal_dec s [] (skipn 8 ct)
  end.

Definition Stub : crypto := {|
  seal_enc := stub_seal_enc;
  seal_dec := stub_seal_dec;
  keypair := stub_keypair;
  wrap := stub_wrap;
  unwrap := stub_unwrap
|}.
