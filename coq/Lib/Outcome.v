(** Outcome of a modelled Go function: a value, an error (small class code) or a
    run-time panic.  "Never crashes" theorems are literally [f x <> Panic]. *)
From Acra Require Import Lib.Bytes.

Inductive res (A : Type) : Type :=
| Ok (a : A)
| Err (e : N)
| Panic.
Arguments Ok {A} a.
Arguments Err {A} e.
Arguments Panic {A}.

Definition bind {A B} (r : res A) (f : A -> res B) : res B :=
  match r with Ok a => f a | Err e => Err e | Panic => Panic end.
Notation "'do' x <- r ; k" := (bind r (fun x => k)) (at level 200, x pattern, r at level 100, k at level 200).

Definition of_option {A} (e : N) (o : option A) : res A :=
  match o with Some a => Ok a | None => Err e end.

Definition is_ok {A} (r : res A) : bool := match r with Ok _ => true | _ => false end.
Definition is_panic {A} (r : res A) : bool := match r with Panic => true | _ => false end.

(** error classes that influence control flow *)
Definition E_GENERIC : N := 0.
Definition E_DECRYPTION : N := 1.   (* crypto.ErrDecryptionError *)
Definition E_OUT_OF_FUEL : N := 99. (* model artefact; theorems show it unreachable *)

(** Go's int(uint64) on a 64-bit platform *)
Definition int_of_u64 (x : N) : Z :=
  if (x <? 9223372036854775808)%N then Z.of_N x else (Z.of_N x - 18446744073709551616)%Z.
