(** Executable SHA-256 and HMAC-SHA-256 over [bytes]; validated against Go's
    crypto/sha256 and crypto/hmac by the correspondence runs and the vectors below.
    Theorems treat [sha256]/[hmac_sha256] as opaque functions. *)
From Acra Require Import Lib.Bytes.
Local Open Scope N_scope.

Definition M32 : N := 4294967296.
Definition MASK32 : N := 4294967295.
Definition add32 (a b : N) : N := N.land (a + b) MASK32.
Definition rotr (n x : N) : N := N.lor (N.shiftr x n) (N.land (N.shiftl x (32 - n)) MASK32).
Definition shr (n x : N) : N := N.shiftr x n.
Definition not32 (x : N) : N := N.lxor x MASK32.

Definition Ch x y z := N.lxor (N.land x y) (N.land (not32 x) z).
Definition Maj x y z := N.lxor (N.lxor (N.land x y) (N.land x z)) (N.land y z).
Definition S0 x := N.lxor (N.lxor (rotr 2 x) (rotr 13 x)) (rotr 22 x).
Definition S1 x := N.lxor (N.lxor (rotr 6 x) (rotr 11 x)) (rotr 25 x).
Definition s0 x := N.lxor (N.lxor (rotr 7 x) (rotr 18 x)) (shr 3 x).
Definition s1 x := N.lxor (N.lxor (rotr 17 x) (rotr 19 x)) (shr 10 x).

Definition K256 : list N :=
 [0x428a2f98;0x71374491;0xb5c0fbcf;0xe9b5dba5;0x3956c25b;0x59f111f1;0x923f82a4;0xab1c5ed5;
  0xd807aa98;0x12835b01;0x243185be;0x550c7dc3;0x72be5d74;0x80deb1fe;0x9bdc06a7;0xc19bf174;
  0xe49b69c1;0xefbe4786;0x0fc19dc6;0x240ca1cc;0x2de92c6f;0x4a7484aa;0x5cb0a9dc;0x76f988da;
  0x983e5152;0xa831c66d;0xb00327c8;0xbf597fc7;0xc6e00bf3;0xd5a79147;0x06ca6351;0x14292967;
  0x27b70a85;0x2e1b2138;0x4d2c6dfc;0x53380d13;0x650a7354;0x766a0abb;0x81c2c92e;0x92722c85;
  0xa2bfe8a1;0xa81a664b;0xc24b8b70;0xc76c51a3;0xd192e819;0xd6990624;0xf40e3585;0x106aa070;
  0x19a4c116;0x1e376c08;0x2748774c;0x34b0bcb5;0x391c0cb3;0x4ed8aa4a;0x5b9cca4f;0x682e6ff3;
  0x748f82ee;0x78a5636f;0x84c87814;0x8cc70208;0x90befffa;0xa4506ceb;0xbef9a3f7;0xc67178f2].

Definition H0 : list N :=
 [0x6a09e667;0xbb67ae85;0x3c6ef372;0xa54ff53a;0x510e527f;0x9b05688c;0x1f83d9ab;0x5be0cd19].

(** message schedule: keep the last 16 words, newest first *)
Fixpoint words_of (bs : bytes) (n : nat) : list N :=
  match n with
  | O => []
  | S n' => be_dec (firstn 4 bs) :: words_of (skipn 4 bs) n'
  end.

Definition nthN (l : list N) (i : nat) : N := nth i l 0.

(** one round; state is (a,b,c,d,e,f,g,h) *)
Definition round (st : list N) (kw : N) : list N :=
  match st with
  | [a;b;c;d;e;f;g;h] =>
      let t1 := add32 (add32 (add32 (add32 h (S1 e)) (Ch e f g)) kw) 0 in
      let t2 := add32 (S0 a) (Maj a b c) in
      [add32 t1 t2; a; b; c; add32 d t1; e; f; g]
  | _ => st
  end.

(** extend the schedule: [w] holds the last 16 words oldest first *)
Fixpoint schedule (w : list N) (n : nat) : list N :=
  match n with
  | O => []
  | S n' =>
      let nw := add32 (add32 (add32 (s1 (nthN w 14)) (nthN w 9)) (s0 (nthN w 1))) (nthN w 0) in
      nw :: schedule (tl w ++ [nw]) n'
  end.

Definition compress (h : list N) (block : bytes) : list N :=
  let w16 := words_of block 16 in
  let w := w16 ++ schedule w16 48 in
  let kws := map (fun p => add32 (fst p) (snd p)) (combine K256 w) in
  let st := fold_left round kws h in
  map (fun p => add32 (fst p) (snd p)) (combine h st).

Fixpoint blocks (h : list N) (bs : bytes) (n : nat) : list N :=
  match n with
  | O => h
  | S n' => blocks (compress h (firstn 64 bs)) (skipn 64 bs) n'
  end.

Definition sha_pad (len : nat) : bytes :=
  let l := N.of_nat len in
  let k := (119 - l mod 64) mod 64 in
  x80 :: repeat_bytes x00 (N.to_nat k) ++ be_enc 8 (8 * l).

Definition sha256 (m : bytes) : bytes :=
  let p := m ++ sha_pad (length m) in
  let h := blocks H0 p (Nat.div (length p) 64) in
  flat_map (be_enc 4) h.

Definition hmac_block (key : bytes) : bytes :=
  let k := if Nat.ltb 64 (length key) then sha256 key else key in
  k ++ repeat_bytes x00 (64 - length k).

Definition hmac_sha256 (key msg : bytes) : bytes :=
  let k := hmac_block key in
  let ipad := map (fun b => bxor b x36) k in
  let opad := map (fun b => bxor b x5c) k in
  sha256 (opad ++ sha256 (ipad ++ msg)).

From Coq Require Import String.
Local Open Scope string_scope.
Example sha256_abc :
  sha256 (bytes_of_string "abc") =
  unhex "ba7816bf8f01cfea414140de5dae2223b00361a396177a9cb410ff61f20015ad".
Proof. vm_compute. reflexivity. Qed.
Example sha256_empty :
  sha256 [] = unhex "e3b0c44298fc1c149afbf4c8996fb92427ae41e4649b934ca495991b7852b855".
Proof. vm_compute. reflexivity. Qed.
Example sha256_two_blocks :
  sha256 (bytes_of_string "abcdbcdecdefdefgefghfghighijhijkijkljklmklmnlmnomnopnopq") =
  unhex "248d6a61d20638b8e5c026930c3e6039a33ce45964ff2167f6ecedd419db06c1".
Proof. vm_compute. reflexivity. Qed.
(* RFC 4231 test case 2 *)
Example hmac_rfc4231_2 :
  hmac_sha256 (bytes_of_string "Jefe") (bytes_of_string "what do ya want for nothing?") =
  unhex "5bdcc146bf60754e6a042426089575c75a003f089d2739839dec58b964ec3843".
Proof. vm_compute. reflexivity. Qed.
