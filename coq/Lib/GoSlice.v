(** Go slice / index / make expressions with their run-time checks.
    [gslice a b s] is Go's [s[a:b]] for a slice whose capacity equals its length
    (a conservative reading: Go checks [b <= cap(s)], and [len <= cap]): it PANICS
    unless [0 <= a <= b <= len s].  Indices are [Z] because they are computed from
    attacker-controlled 64-bit numbers.  Also: Go's fixed-width integer behaviour
    ([int] = int64 wrap-around addition, [uint64(int)], uint64 arithmetic). *)
From Acra Require Import Lib.Bytes Lib.Outcome.
From Coq Require Import ZifyN ZifyNat ZifyBool.
Local Open Scope Z_scope.

Definition len (s : bytes) : Z := Z.of_nat (length s).

Definition gslice (a b : Z) (s : bytes) : res bytes :=
  if (0 <=? a) && (a <=? b) && (b <=? len s)
  then Ok (sub (Z.to_nat a) (Z.to_nat (b - a)) s) else Panic.
Definition gslice_from (a : Z) (s : bytes) : res bytes := gslice a (len s) s.   (* s[a:] *)
Definition gslice_to (b : Z) (s : bytes) : res bytes := gslice 0 b s.          (* s[:b] *)
Definition gindex (i : Z) (s : bytes) : res byte :=
  if (0 <=? i) && (i <? len s) then Ok (nth (Z.to_nat i) s x00) else Panic.

(** [make([]byte, n)]: "makeslice: len out of range" for a negative or absurd length
    (2^47 = the address-space bound of the Go runtime on amd64); the value is the number
    of bytes allocated *)
Definition MAXALLOC : Z := 140737488355328.
Definition gmake (n : Z) : res nat :=
  if (0 <=? n) && (n <=? MAXALLOC) then Ok (Z.to_nat n) else Panic.

(** [copy(dst, src)]: min(len dst, len src) bytes; the result is the new content of dst *)
Definition gcopy (dst src : bytes) : bytes :=
  firstn (length dst) src ++ skipn (length src) dst.

(** ** fixed-width integers *)
Definition TWO63 : Z := 9223372036854775808.
Definition TWO64 : Z := 18446744073709551616.
Definition TWO64N : N := 18446744073709551616.
(** every Go byte slice satisfies this: the runtime refuses allocations above maxAlloc *)
Definition go_len (s : bytes) : Prop := len s <= MAXALLOC.

(** int64 result of an [int] computation *)
Definition wrap_int (z : Z) : Z := (z + TWO63) mod TWO64 - TWO63.
Definition int_add (a b : Z) : Z := wrap_int (a + b).
(** [uint64(x)] for an [int] x *)
Definition u64_of_int (z : Z) : N := Z.to_N (z mod TWO64).
Definition u64_add (a b : N) : N := ((a + b) mod TWO64N)%N.
Definition u64_sub (a b : N) : N := ((a + TWO64N - b) mod TWO64N)%N.

(** binary.LittleEndian.Uint64 / Uint16: bounds-check hint [_ = b[7]] / [_ = b[1]] first *)
Definition le_u64 (b : bytes) : res N := do _ <- gindex 7 b; Ok (le_dec (firstn 8 b)).
Definition le_u16 (b : bytes) : res N := do _ <- gindex 1 b; Ok (le_dec (firstn 2 b)).

Definition res_map {A B} (f : A -> B) (r : res A) : res B :=
  match r with Ok a => Ok (f a) | Err e => Err e | Panic => Panic end.

(** * lemmas: under its guard each checked expression is the total list function *)
Lemma len_nonneg s : 0 <= len s.
Proof. unfold len. lia. Qed.

Lemma len_app a b : len (a ++ b) = len a + len b.
Proof. unfold len. rewrite app_length. lia. Qed.

Lemma gslice_ok a b s : 0 <= a -> a <= b -> b <= len s ->
  gslice a b s = Ok (sub (Z.to_nat a) (Z.to_nat (b - a)) s).
Proof.
  intros H1 H2 H3. unfold gslice.
  destruct (Z.leb_spec 0 a); [|lia]. destruct (Z.leb_spec a b); [|lia]. destruct (Z.leb_spec b (len s)); [|lia].
  reflexivity.
Qed.

Lemma gslice_panic a b s : gslice a b s = Panic <-> ~ (0 <= a /\ a <= b /\ b <= len s).
Proof.
  unfold gslice. destruct (Z.leb_spec 0 a); destruct (Z.leb_spec a b); destruct (Z.leb_spec b (len s)); cbn;
    split; intros HH; try discriminate; try reflexivity; try lia; exfalso; apply HH; lia.
Qed.

Lemma gslice_not_panic a b s : 0 <= a -> a <= b -> b <= len s -> gslice a b s <> Panic.
Proof. intros. rewrite gslice_ok by assumption. discriminate. Qed.

Lemma gslice_nat (a b : nat) s : (a <= b)%nat -> (b <= length s)%nat ->
  gslice (Z.of_nat a) (Z.of_nat b) s = Ok (sub a (b - a) s).
Proof.
  intros H1 H2. rewrite gslice_ok by (unfold len; lia). f_equal. f_equal; lia.
Qed.

Lemma gslice_to_nat (n : nat) s : (n <= length s)%nat -> gslice_to (Z.of_nat n) s = Ok (firstn n s).
Proof.
  intros H. unfold gslice_to. change 0 with (Z.of_nat 0). rewrite gslice_nat by lia.
  unfold sub. cbn [skipn]. rewrite Nat.sub_0_r. reflexivity.
Qed.

Lemma gslice_from_nat (n : nat) s : (n <= length s)%nat -> gslice_from (Z.of_nat n) s = Ok (skipn n s).
Proof.
  intros H. unfold gslice_from, len. rewrite gslice_nat by lia. unfold sub.
  rewrite firstn_all2 by (rewrite skipn_length; lia). reflexivity.
Qed.

Lemma gslice_to_ok b s : 0 <= b -> b <= len s -> gslice_to b s = Ok (firstn (Z.to_nat b) s).
Proof.
  intros H1 H2. replace b with (Z.of_nat (Z.to_nat b)) at 1 by lia. apply gslice_to_nat. unfold len in H2. lia.
Qed.

Lemma gslice_from_ok a s : 0 <= a -> a <= len s -> gslice_from a s = Ok (skipn (Z.to_nat a) s).
Proof.
  intros H1 H2. replace a with (Z.of_nat (Z.to_nat a)) at 1 by lia. apply gslice_from_nat. unfold len in H2. lia.
Qed.

Lemma gslice_from_panic a s : gslice_from a s = Panic <-> ~ (0 <= a <= len s).
Proof. unfold gslice_from. rewrite gslice_panic. lia. Qed.

Lemma gslice_to_panic b s : gslice_to b s = Panic <-> ~ (0 <= b <= len s).
Proof. unfold gslice_to. rewrite gslice_panic. lia. Qed.

Lemma gslice_length a b s r : gslice a b s = Ok r -> len r = b - a.
Proof.
  unfold gslice. destruct (Z.leb_spec 0 a); destruct (Z.leb_spec a b); destruct (Z.leb_spec b (len s)); cbn;
    try discriminate. intros [= <-]. unfold len, sub in *. rewrite firstn_length, skipn_length. lia.
Qed.

Lemma gslice_never_err a b s e : gslice a b s <> Err e.
Proof. unfold gslice. destruct (_ && _ && _); discriminate. Qed.

Lemma gindex_nat (i : nat) s : (i < length s)%nat -> gindex (Z.of_nat i) s = Ok (nth i s x00).
Proof.
  intros H. unfold gindex, len. destruct (Z.leb_spec 0 (Z.of_nat i)); [|lia].
  destruct (Z.ltb_spec (Z.of_nat i) (Z.of_nat (length s))); [|lia]. cbn. rewrite Nat2Z.id. reflexivity.
Qed.

Lemma gindex_ok i s : 0 <= i -> i < len s -> gindex i s = Ok (nth (Z.to_nat i) s x00).
Proof.
  intros H1 H2. replace i with (Z.of_nat (Z.to_nat i)) at 1 by lia. rewrite gindex_nat by (unfold len in H2; lia).
  reflexivity.
Qed.

Lemma gindex_panic i s : gindex i s = Panic <-> ~ (0 <= i < len s).
Proof.
  unfold gindex. destruct (Z.leb_spec 0 i); destruct (Z.ltb_spec i (len s)); cbn; split; intros HH;
    try discriminate; try reflexivity; try lia; exfalso; apply HH; lia.
Qed.

Lemma gmake_ok n : 0 <= n -> n <= MAXALLOC -> gmake n = Ok (Z.to_nat n).
Proof.
  intros H1 H2. unfold gmake. destruct (Z.leb_spec 0 n); [|lia]. destruct (Z.leb_spec n MAXALLOC); [|lia]. reflexivity.
Qed.

Lemma gmake_panic n : gmake n = Panic <-> ~ (0 <= n <= MAXALLOC).
Proof.
  unfold gmake. destruct (Z.leb_spec 0 n); destruct (Z.leb_spec n MAXALLOC); cbn; split; intros HH;
    try discriminate; try reflexivity; try lia; exfalso; apply HH; lia.
Qed.

Lemma gcopy_make n src : (n <= length src)%nat -> gcopy (repeat x00 n) src = firstn n src.
Proof.
  intros H. unfold gcopy. rewrite repeat_length, skipn_all2 by (rewrite repeat_length; exact H). apply app_nil_r.
Qed.

Lemma gcopy_length dst src : length (gcopy dst src) = length dst.
Proof. unfold gcopy. rewrite app_length, firstn_length, skipn_length. lia. Qed.

Lemma wrap_int_small z : - TWO63 <= z < TWO63 -> wrap_int z = z.
Proof. unfold wrap_int, TWO63, TWO64. intros H. rewrite Z.mod_small by lia. lia. Qed.

Lemma wrap_int_range z : - TWO63 <= wrap_int z < TWO63.
Proof. unfold wrap_int, TWO63, TWO64. pose proof (Z.mod_pos_bound (z + 9223372036854775808) 18446744073709551616 ltac:(lia)). lia. Qed.

Lemma u64_of_int_small z : 0 <= z < TWO64 -> u64_of_int z = Z.to_N z.
Proof. unfold u64_of_int, TWO64. intros H. rewrite Z.mod_small by lia. reflexivity. Qed.

Lemma u64_of_int_nat (n : nat) : Z.of_nat n < TWO64 -> u64_of_int (Z.of_nat n) = N.of_nat n.
Proof. intros H. rewrite u64_of_int_small by lia. lia. Qed.

Lemma int_of_u64_range x : (x < TWO64N)%N -> - TWO63 <= int_of_u64 x < TWO63.
Proof. unfold int_of_u64, TWO64N, TWO63. intros H. destruct (N.ltb_spec x 9223372036854775808); lia. Qed.

Lemma le_u64_8 b : length b = 8%nat -> le_u64 b = Ok (le_dec b).
Proof.
  intros H. unfold le_u64. rewrite (gindex_ok 7 b) by (unfold len; lia). cbn [bind].
  rewrite firstn_all2 by lia. reflexivity.
Qed.

Lemma le_u16_2 b : length b = 2%nat -> le_u16 b = Ok (le_dec b).
Proof.
  intros H. unfold le_u16. rewrite (gindex_ok 1 b) by (unfold len; lia). cbn [bind].
  rewrite firstn_all2 by lia. reflexivity.
Qed.

Lemma le_dec_8_lt b : length b = 8%nat -> (le_dec b < TWO64N)%N.
Proof. intros H. pose proof (le_dec_lt b) as L. rewrite H in L. exact L. Qed.

Lemma le_dec_2_lt b : length b = 2%nat -> (le_dec b < 65536)%N.
Proof. intros H. pose proof (le_dec_lt b) as L. rewrite H in L. exact L. Qed.

Lemma sub_length {A} a n (s : list A) : (a + n <= length s)%nat -> length (sub a n s) = n.
Proof. intros H. unfold sub. rewrite firstn_length, skipn_length. lia. Qed.
