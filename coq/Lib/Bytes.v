(** Bytes, fixed-width little/big endian codecs, sub-list search, hex. *)
From Coq Require Export List NArith ZArith Lia Bool.
From Coq Require String Ascii.
From Coq Require Export Strings.Byte.
From Coq Require Import ZifyN ZifyNat ZifyBool.
Export ListNotations.
Ltac Zify.zify_post_hook ::= Z.div_mod_to_equations.

Definition bytes := list byte.

Definition b2n (b : byte) : N := Byte.to_N b.
Definition n2b (n : N) : byte :=
  match Byte.of_N (n mod 256) with Some b => b | None => x00 end.

Lemma b2n_lt b : (b2n b < 256)%N.
Proof. unfold b2n. destruct b; vm_compute; reflexivity. Qed.

Lemma n2b_b2n b : n2b (b2n b) = b.
Proof. destruct b; vm_compute; reflexivity. Qed.

Lemma of_N_small n : (n < 256)%N -> exists b, Byte.of_N n = Some b.
Proof.
  intros H. destruct (Byte.of_N n) eqn:E; [eauto|].
  apply Byte.of_N_None_iff in E. lia.
Qed.

Lemma b2n_n2b n : b2n (n2b n) = (n mod 256)%N.
Proof.
  unfold n2b, b2n.
  destruct (of_N_small (n mod 256)) as [b Hb]; [apply N.mod_lt; lia|].
  rewrite Hb. apply Byte.to_of_N. exact Hb.
Qed.

Lemma b2n_inj a b : b2n a = b2n b -> a = b.
Proof. intros H. rewrite <- (n2b_b2n a), <- (n2b_b2n b), H. reflexivity. Qed.

Definition byte_eqb (a b : byte) : bool := Byte.eqb a b.
Lemma byte_eqb_eq a b : byte_eqb a b = true <-> a = b.
Proof. unfold byte_eqb. split; intro H; [apply Byte.byte_dec_bl; exact H| apply Byte.byte_dec_lb; exact H]. Qed.
Lemma byte_eqb_refl a : byte_eqb a a = true.
Proof. apply byte_eqb_eq. reflexivity. Qed.

Fixpoint bytes_eqb (a b : bytes) : bool :=
  match a, b with
  | [], [] => true
  | x :: a', y :: b' => byte_eqb x y && bytes_eqb a' b'
  | _, _ => false
  end.

Lemma bytes_eqb_eq a b : bytes_eqb a b = true <-> a = b.
Proof.
  revert b; induction a as [|x a IH]; intros [|y b]; cbn; split; intro H;
    try reflexivity; try discriminate.
  - apply andb_true_iff in H as [H1 H2]. apply byte_eqb_eq in H1. apply IH in H2. congruence.
  - inversion H; subst. rewrite byte_eqb_refl. cbn. apply IH. reflexivity.
Qed.
Lemma bytes_eqb_refl a : bytes_eqb a a = true.
Proof. apply bytes_eqb_eq. reflexivity. Qed.
Lemma bytes_eqb_neq a b : bytes_eqb a b = false <-> a <> b.
Proof.
  split.
  - intros H E. subst. rewrite bytes_eqb_refl in H. discriminate.
  - intros H. destruct (bytes_eqb a b) eqn:E; [|reflexivity]. apply bytes_eqb_eq in E. contradiction.
Qed.

(** little endian, [w] bytes; truncates like Go's PutUintNN after a conversion *)
Fixpoint le_enc (w : nat) (n : N) : bytes :=
  match w with
  | O => []
  | S w' => n2b n :: le_enc w' (n / 256)
  end.

Fixpoint le_dec (bs : bytes) : N :=
  match bs with
  | [] => 0
  | b :: r => b2n b + 256 * le_dec r
  end%N.

Definition be_enc (w : nat) (n : N) : bytes := rev (le_enc w n).
Definition be_dec (bs : bytes) : N := le_dec (rev bs).

Lemma le_enc_length w n : length (le_enc w n) = w.
Proof. revert n; induction w as [|w IH]; intros n; cbn; [reflexivity| rewrite IH; reflexivity]. Qed.

Lemma le_dec_lt bs : (le_dec bs < 256 ^ N.of_nat (length bs))%N.
Proof.
  induction bs as [|b r IH]; cbn [le_dec length].
  - cbn. lia.
  - rewrite Nat2N.inj_succ, N.pow_succ_r'. pose proof (b2n_lt b). lia.
Qed.

Lemma le_dec_enc w n : le_dec (le_enc w n) = (n mod 256 ^ N.of_nat w)%N.
Proof.
  revert n; induction w as [|w IH]; intros n.
  - cbn. rewrite N.mod_1_r. reflexivity.
  - cbn [le_enc le_dec]. rewrite b2n_n2b, IH, Nat2N.inj_succ, N.pow_succ_r'.
    set (p := (256 ^ N.of_nat w)%N). assert (0 < p)%N by (apply N.neq_0_lt_0, N.pow_nonzero; lia).
    rewrite N.mod_mul_r by lia. reflexivity.
Qed.

Lemma le_dec_enc_small w n : (n < 256 ^ N.of_nat w)%N -> le_dec (le_enc w n) = n.
Proof. intros H. rewrite le_dec_enc. apply N.mod_small. exact H. Qed.

Lemma le_enc_dec bs : le_enc (length bs) (le_dec bs) = bs.
Proof.
  induction bs as [|b r IH]; cbn [length le_enc le_dec]; [reflexivity|].
  pose proof (b2n_lt b) as Hb.
  replace (n2b (b2n b + 256 * le_dec r)) with b.
  - f_equal. replace ((b2n b + 256 * le_dec r) / 256)%N with (le_dec r); [exact IH|].
    symmetry. rewrite N.mul_comm, N.div_add by lia. rewrite N.div_small by lia. lia.
  - rewrite <- (n2b_b2n b) at 1. unfold n2b. f_equal.
    rewrite N.mul_comm, N.mod_add by lia. reflexivity.
Qed.

Lemma be_enc_length w n : length (be_enc w n) = w.
Proof. unfold be_enc. rewrite rev_length. apply le_enc_length. Qed.
Lemma be_dec_enc_small w n : (n < 256 ^ N.of_nat w)%N -> be_dec (be_enc w n) = n.
Proof. intros H. unfold be_dec, be_enc. rewrite rev_involutive. apply le_dec_enc_small, H. Qed.
Lemma be_enc_dec bs : be_enc (length bs) (be_dec bs) = bs.
Proof.
  unfold be_enc, be_dec. rewrite <- (rev_length bs), le_enc_dec. apply rev_involutive.
Qed.
Lemma be_dec_lt bs : (be_dec bs < 256 ^ N.of_nat (length bs))%N.
Proof. unfold be_dec. rewrite <- (rev_length bs). apply le_dec_lt. Qed.

(** firstn/skipn helpers *)
Lemma firstn_app_len {A} (a b : list A) : firstn (length a) (a ++ b) = a.
Proof. rewrite firstn_app, Nat.sub_diag, firstn_all. cbn. apply app_nil_r. Qed.
Lemma skipn_app_len {A} (a b : list A) : skipn (length a) (a ++ b) = b.
Proof. rewrite skipn_app, Nat.sub_diag, skipn_all. reflexivity. Qed.
Lemma firstn_app_len' {A} n (a b : list A) : n = length a -> firstn n (a ++ b) = a.
Proof. intros ->. apply firstn_app_len. Qed.
Lemma skipn_app_len' {A} n (a b : list A) : n = length a -> skipn n (a ++ b) = b.
Proof. intros ->. apply skipn_app_len. Qed.

(** [sub a n s] = s[a : a+n] without bounds checking (callers check) *)
Definition sub {A} (a n : nat) (s : list A) : list A := firstn n (skipn a s).

(** prefix test *)
Fixpoint starts_with (p s : bytes) : bool :=
  match p, s with
  | [], _ => true
  | x :: p', y :: s' => byte_eqb x y && starts_with p' s'
  | _ :: _, [] => false
  end.

Lemma starts_with_spec p s : starts_with p s = true <-> exists r, s = p ++ r.
Proof.
  revert s; induction p as [|x p IH]; intros s; cbn.
  - split; [intros _; exists s; reflexivity| reflexivity].
  - destruct s as [|y s]; [split; [discriminate| intros [r Hr]; discriminate]|].
    rewrite andb_true_iff, byte_eqb_eq, IH. split.
    + intros [-> [r ->]]. exists r. reflexivity.
    + intros [r Hr]. inversion Hr; subst. split; [reflexivity| exists r; reflexivity].
Qed.

Lemma starts_with_app p r : starts_with p (p ++ r) = true.
Proof. apply starts_with_spec. exists r. reflexivity. Qed.

(** index of the first occurrence of [p] in [s] (Go: bytes.Index) *)
Fixpoint index_of (p s : bytes) : option nat :=
  if starts_with p s then Some 0
  else match s with
       | [] => None
       | _ :: s' => option_map S (index_of p s')
       end.

Lemma index_of_some p s i :
  index_of p s = Some i ->
  starts_with p (skipn i s) = true /\
  forall j, j < i -> starts_with p (skipn j s) = false.
Proof.
  revert i; induction s as [|y s IH]; intros i; cbn [index_of].
  - destruct (starts_with p []) eqn:E; [|discriminate].
    intros [= <-]. split; [exact E| intros j Hj; lia].
  - destruct (starts_with p (y :: s)) eqn:E.
    + intros [= <-]. split; [exact E| intros j Hj; lia].
    + destruct (index_of p s) as [k|] eqn:Ek; cbn; [|discriminate].
      intros [= <-]. destruct (IH k eq_refl) as [H1 H2]. split; [exact H1|].
      intros [|j] Hj; [exact E| apply H2; lia].
Qed.

Lemma index_of_none p s :
  index_of p s = None -> forall j, j <= length s -> starts_with p (skipn j s) = false.
Proof.
  induction s as [|y s IH]; cbn [index_of].
  - destruct (starts_with p []) eqn:E; [discriminate|]. intros _ j Hj. destruct j; exact E.
  - destruct (starts_with p (y :: s)) eqn:E; [discriminate|].
    destruct (index_of p s) eqn:Ek; cbn; [discriminate|]. intros _ [|j] Hj; [exact E|].
    cbn. apply IH; [reflexivity| cbn in Hj; lia].
Qed.

Lemma index_of_lt p s i : index_of p s = Some i -> i <= length s.
Proof.
  revert i; induction s as [|y s IH]; intros i; cbn [index_of].
  - destruct (starts_with p []); [intros [= <-]; cbn; lia| discriminate].
  - destruct (starts_with p (y :: s)); [intros [= <-]; lia|].
    destruct (index_of p s) as [k|]; cbn; [|discriminate]. intros [= <-]. specialize (IH k eq_refl). cbn. lia.
Qed.

(** xor on bytes *)
Lemma log2_lt_8 a : (a < 256 -> N.log2 a < 8)%N.
Proof.
  intros H. destruct (N.eq_dec a 0) as [->|E]; [cbn; lia|].
  apply (N.log2_lt_pow2 a 8); [lia| exact H].
Qed.
Lemma lxor_lt_256 a b : (a < 256 -> b < 256 -> N.lxor a b < 256)%N.
Proof.
  intros Ha Hb. destruct (N.eq_dec (N.lxor a b) 0) as [E|E]; [rewrite E; lia|].
  apply (N.log2_lt_pow2 _ 8); [lia|].
  eapply N.le_lt_trans; [apply N.log2_lxor|].
  apply N.max_lub_lt; apply log2_lt_8; assumption.
Qed.

Definition bxor (a b : byte) : byte := n2b (N.lxor (b2n a) (b2n b)).
Lemma bxor_involutive a k : bxor (bxor a k) k = a.
Proof.
  unfold bxor. rewrite b2n_n2b.
  assert (N.lxor (b2n a) (b2n k) < 256)%N as Hlt by (apply lxor_lt_256; apply b2n_lt).
  rewrite N.mod_small by exact Hlt.
  rewrite N.lxor_assoc, N.lxor_nilpotent, N.lxor_0_r. apply n2b_b2n.
Qed.

Fixpoint xor_bytes (m ks : bytes) : bytes :=
  match m, ks with
  | x :: m', k :: ks' => bxor x k :: xor_bytes m' ks'
  | _, _ => []
  end.
Lemma xor_bytes_length m ks : length m <= length ks -> length (xor_bytes m ks) = length m.
Proof.
  revert ks; induction m as [|x m IH]; intros [|k ks] H; cbn in *; try lia.
  rewrite IH by lia. reflexivity.
Qed.
Lemma xor_bytes_involutive m ks : length m <= length ks -> xor_bytes (xor_bytes m ks) ks = m.
Proof.
  revert ks; induction m as [|x m IH]; intros [|k ks] H; cbn in *; try lia; try reflexivity.
  rewrite bxor_involutive, IH by lia. reflexivity.
Qed.

(** hex parsing for case files *)
Definition hexval (c : Ascii.ascii) : N :=
  let n := Ascii.N_of_ascii c in
  if (48 <=? n)%N && (n <=? 57)%N then n - 48
  else if (97 <=? n)%N && (n <=? 102)%N then n - 87
  else if (65 <=? n)%N && (n <=? 70)%N then n - 55 else 0.
Fixpoint unhex (s : String.string) : bytes :=
  match s with
  | String.String a (String.String b r) => n2b (16 * hexval a + hexval b) :: unhex r
  | _ => []
  end.
Definition bytes_of_string (s : String.string) : bytes :=
  map (fun c => n2b (Ascii.N_of_ascii c)) (String.list_ascii_of_string s).

Fixpoint repeat_bytes (b : byte) (n : nat) : bytes := match n with O => [] | S n' => b :: repeat_bytes b n' end.
Lemma repeat_bytes_length b n : length (repeat_bytes b n) = n.
Proof. induction n; cbn; congruence. Qed.

(** compact literals for generated case files: [hb 0x1aabb] = [xaa; xbb]
    (a leading 1 digit keeps leading zero bytes; bits are peeled LSB first) *)
Fixpoint pos_bytes (p : positive) (w cur : N) (acc : bytes) : bytes :=
  match p with
  | xH => acc
  | xO p' => if N.eqb w 128 then pos_bytes p' 1 0 (n2b cur :: acc) else pos_bytes p' (2 * w) cur acc
  | xI p' => if N.eqb w 128 then pos_bytes p' 1 0 (n2b (cur + w) :: acc) else pos_bytes p' (2 * w) (cur + w) acc
  end%N.
Definition hb (n : N) : bytes := match n with N0 => [] | Npos p => pos_bytes p 1 0 [] end.
