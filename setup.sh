#!/bin/sh
# Build everything the checks need from files on disk only (offline).
set -e
cd "$(dirname "$0")"
export GOFLAGS=-mod=mod GOPROXY=off GOSUMDB=off GOTOOLCHAIN=local
mkdir -p build/bin evidence replays
cp /repo/go.sum harness/go.sum
(cd harness && go build -tags verif -o ../build/bin/acra-vh ./cmd/acra-vh)
python3 - <<'PY'
import subprocess, sys
sys.path.insert(0, '.')
from checks_config import GENERATORS
for name, args in GENERATORS:
    out = subprocess.run(['./build/bin/acra-vh'] + args, check=True, capture_output=True, text=True).stdout
    open('coq/Gen/' + name, 'w').write(out)
PY
(cd coq && coq_makefile -f _CoqProject -o Makefile >/dev/null && timeout 3000 make -j16 >/dev/null)
echo setup ok
