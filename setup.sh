#!/bin/sh
# Build everything the checks need from files on disk only (offline).
set -e
cd "$(dirname "$0")"
export GOFLAGS=-mod=mod GOPROXY=off GOSUMDB=off GOTOOLCHAIN=local
mkdir -p build/bin evidence replays
cp /repo/go.sum harness/go.sum
(cd harness && go build -tags verif -o ../build/bin/acra-vh ./cmd/acra-vh)
./build/bin/acra-vh consts > coq/Gen/Consts.v.new && mv coq/Gen/Consts.v.new coq/Gen/Consts.v
(cd coq && coq_makefile -f _CoqProject -o Makefile >/dev/null && timeout 3000 make -j16 >/dev/null)
echo setup ok
