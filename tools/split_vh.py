#!/usr/bin/env python3
"""tools/split_vh.py <workspace> <newpkg> <vh files to move (basenames)> -- <domain files (basenames in cmd/acra-vh)>
Moves an agent's harness/vh/*.go helper files into their own package harness/<newpkg>/ (avoids name clashes in package vh)."""
import os, re, subprocess, sys
ws, newpkg = sys.argv[1], sys.argv[2]
rest = sys.argv[3:]
i = rest.index("--")
moved, doms = rest[:i], rest[i+1:]
H = "/verif/harness"
os.makedirs("%s/%s" % (H, newpkg), exist_ok=True)
idents = set()
for f in moved:
    s = open("%s/harness/vh/%s" % (ws, f)).read()
    s = re.sub(r"^package vh\b", "package " + newpkg, s, flags=re.M)
    for m in re.finditer(r"^(?:func|type|var|const)\s+([A-Z]\w*)", s, flags=re.M):
        idents.add(m.group(1))
    for blk in re.finditer(r"^(?:var|const)\s*\((.*?)^\)", s, flags=re.M | re.S):
        for m in re.finditer(r"^\s+([A-Z]\w*)\b", blk.group(1), flags=re.M):
            idents.add(m.group(1))
    open("%s/%s/%s" % (H, newpkg, f), "w").write(s)
print("exported by moved files:", sorted(idents))
for f in doms:
    p = "%s/cmd/acra-vh/%s" % (H, f)
    s = open(p).read()
    for n in idents:
        s = re.sub(r"\bvh\.%s\b" % n, "%s.%s" % (newpkg, n), s)
    if newpkg + "." in s and '"acra-vh/%s"' % newpkg not in s:
        s = s.replace('"acra-vh/vh"', '"acra-vh/%s"\n\t"acra-vh/vh"' % newpkg, 1) if '"acra-vh/vh"' in s else re.sub(r"import \(", 'import (\n\t"acra-vh/%s"' % newpkg, s, 1)
    open(p, "w").write(s)
env = dict(os.environ, GOFLAGS="-mod=mod", GOPROXY="off", GOSUMDB="off", GOTOOLCHAIN="local")
for it in range(20):
    r = subprocess.run(["go", "build", "-tags", "verif", "-gcflags=-e", "./" + newpkg], cwd=H, env=env, capture_output=True, text=True)
    und = set(re.findall(r"undefined: (\w+)", r.stderr))
    if not und:
        print(r.stderr[:2000]); break
    for f in moved:
        p = "%s/%s/%s" % (H, newpkg, f)
        s = open(p).read()
        for n in und:
            s = re.sub(r"(?<![\w.])%s\b" % n, "vh." + n, s)
        if "vh." in s and '"acra-vh/vh"' not in s:
            s = re.sub(r"import \(", 'import (\n\t"acra-vh/vh"', s, 1)
        open(p, "w").write(s)
    print("qualified with vh.:", sorted(und))
subprocess.run(["gofmt", "-w", newpkg] + ["cmd/acra-vh/" + d for d in doms], cwd=H)
# unused vh import in domain files?
