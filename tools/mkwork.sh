#!/bin/sh
# tools/mkwork.sh <name>: isolated workspace for building one work package:
#   /tmp/w/<name>/verif  copy of /verif (with compiled .vo files)   /tmp/w/<name>/repo  git worktree of /repo HEAD
set -e
N="$1"; W=/tmp/w/$N
rm -rf "$W/verif"; mkdir -p "$W"
if [ -d "$W/repo" ]; then git -C /repo worktree remove --force "$W/repo" || rm -rf "$W/repo"; fi
git -C /repo worktree prune
git -C /repo worktree add --detach "$W/repo" HEAD >/dev/null
rsync -a --exclude .git --exclude build --exclude replays /verif/ "$W/verif/"
sed -i "s#=> /repo#=> $W/repo#" "$W/verif/harness/go.mod"
mkdir -p "$W/verif/build/bin" "$W/verif/patches"
echo "workspace ready: export VERIF_REPO=$W/repo; cd $W/verif"
