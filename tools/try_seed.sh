#!/bin/sh
# tools/try_seed.sh <name> <ID> [more IDs]: apply the seeded patch to /repo, run the checks, undo.
N=$1; shift
cd /repo && git status --short | grep -q . && { echo "/repo not clean"; exit 1; }
git apply /tmp/mut/$N/out/patch.diff || git apply /verif/seeded/$N/patch.diff || exit 1
cd /verif
for ID in "$@"; do ./check $ID 2>&1 | grep -v "^KNOWN" | tail -4 | cut -c1-300; done
git -C /repo checkout -q -- . ; git -C /repo clean -fdq; git -C /repo status --short
