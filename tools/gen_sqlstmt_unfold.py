#!/usr/bin/env python3
"""Regenerates coq/Proofs/SqlStmtUnfold.v (one reflexivity lemma per function of the recursive parser block of
coq/Model/SqlStmtParse.v, bodies copied verbatim).  Run from the verif root after editing the parser."""
import re
src = open('coq/Model/SqlStmtParse.v').read()
a = src.index("Fixpoint pexpr (f : nat)")
b = src.index("(** update_list:")
block = src[a:b]
block = re.sub(r"\(\*\*.*?\*\)", "", block, flags=re.S)
block = re.sub(r"\(\*.*?\*\)", "", block, flags=re.S)
out, names = [], []
for p in re.split(r"\n(?=with )", block):
    p = p.strip()
    m = re.match(r"(?:Fixpoint|with) (\w+) \(f : nat\)(.*?)\{struct f\} : (.*?) :=\s*match f with\s*\| O => None\s*\| S f =>\n(.*)\n  end\.?\s*$", p, re.S)
    assert m, p[:80]
    name, args, body = m.group(1), m.group(2).strip(), m.group(4)
    names.append(name)
    flat = " ".join(" ".join(x.split()) for x in re.findall(r"\((\w+(?: \w+)*) :", args))
    out.append("Lemma %s_S f %s :\n  %s (S f) %s =\n%s.\nProof. reflexivity. Qed.\n" % (name, args, name, flat, body))
hdr = '''(** C13_statements: one-step unfolding of every function of the recursive parser block
    (GENERATED from Model/SqlStmtParse.v by tools/gen_sqlstmt_unfold.py: the bodies are verbatim copies; each
    lemma is proved by reflexivity, so a stale copy fails to compile). *)
From Acra Require Import Lib.Bytes Gen.Prec Gen.SqlWords Model.SqlStmt Model.SqlStmtParse.
From Coq Require Import Arith.

Section Unfold.
Variable pg : bool.
'''
pgdep = ["tok_id", "tok_talias", "pcol", "star_head", "ptname", "atom_head", "jcond_head", "lim_head", "lim_head2", "plim"]
nots = "".join("Notation %s := (SqlStmtParse.%s pg) (only parsing).\n" % (n, n) for n in names + pgdep)
open('coq/Proofs/SqlStmtUnfold.v', 'w').write(hdr + nots + "\n" + "\n".join(out) + "End Unfold.\n")
