#!/bin/sh
# tools/merge_work.sh <name>: bring a finished work package into /verif (new files only; shared files are shown as diffs)
N="$1"; W=/tmp/w/$N/verif
[ -d "$W" ] || { echo "no workspace $W"; exit 1; }
cd /verif
mkdir -p reports patches/$N
[ -f "$W/REPORT.md" ] && cp "$W/REPORT.md" reports/$N.md
if [ -d "$W/patches/$N" ]; then cp -r "$W/patches/$N/." patches/$N/; else find "$W/patches" -maxdepth 1 -type f -newer "$W/CONVENTIONS.md" -exec cp {} patches/$N/ \; ; fi 2>/dev/null; rmdir patches/$N 2>/dev/null
echo "== new files =="
(cd "$W" && find coq harness -type f \( -name '*.v' -o -name '*.go' -o -name '*.json' -o -name '*.yaml' -o -name '*.txt' -o -name '*.md' \) ! -path '*/build/*' ) | while read f; do
  if [ ! -e "/verif/$f" ]; then mkdir -p "$(dirname /verif/$f)"; cp "$W/$f" "/verif/$f"; echo "  + $f"; 
  elif ! cmp -s "$W/$f" "/verif/$f"; then case "$f" in harness/go.mod|harness/go.sum|coq/Gen/*) ;; *) echo "  ~ CHANGED (not copied): $f";; esac; fi
done
python3 /verif/tools/merge_shared.py "$N"
echo "== patches =="; ls patches/$N 2>/dev/null
