#!/usr/bin/env python3
"""tools/add_manifest.py <ID> <category> <text> <note> <technique>"""
import json, sys
pid, cat, text, note, tech = sys.argv[1:6]
m = json.load(open('/verif/MANIFEST.json'))
m['checks'] = [c for c in m['checks'] if c['property_id'] != pid]
m['checks'].append({"property_id": pid, "quick_cmd": "./check %s --tier quick" % pid, "thorough_cmd": "./check %s --tier thorough" % pid,
  "evidence_file": "evidence/%s.json" % pid, "engine": "coq",
  "level_claimed": {"category": cat, "text": text, "design_ref": "DESIGN.md section 7 %s and section 12" % pid},
  "level_note": note, "technique": tech})
m['checks'].sort(key=lambda c: c['property_id'])
for e in m['engines']:
    e['serves_properties'] = sorted(set(e['serves_properties'] + [pid]))
json.dump(m, open('/verif/MANIFEST.json', 'w'), indent=1)
