#!/usr/bin/env python3
"""tools/merge_shared.py <name>: merge an agent's additions to _CoqProject, checks_config.py (PROPS/GENERATORS), known_findings.json"""
import json, re, sys, importlib.util
name = sys.argv[1]
W = "/tmp/w/%s/verif" % name
# _CoqProject: append lines not present
mine = [l.rstrip("\n") for l in open("/verif/coq/_CoqProject")]
theirs = [l.rstrip("\n") for l in open(W + "/coq/_CoqProject")]
new = [l for l in theirs if l and l not in mine]
if new:
    with open("/verif/coq/_CoqProject", "a") as f:
        f.write("\n".join(new) + "\n")
print("_CoqProject +", new)
# checks_config: load both modules
def load(path, modname):
    spec = importlib.util.spec_from_file_location(modname, path); m = importlib.util.module_from_spec(spec); spec.loader.exec_module(m); return m
a = load("/verif/checks_config.py", "a"); b = load(W + "/checks_config.py", "b")
src = open("/verif/checks_config.py").read()
gens = [g for g in b.GENERATORS if g not in a.GENERATORS]
if gens:
    add = "".join('    ("%s", %s),\n' % (g[0], json.dumps(g[1])) for g in gens)
    src = src.replace("GENERATORS = [\n", "GENERATORS = [\n" + add, 1)
print("GENERATORS +", gens)
for pid, cfg in b.PROPS.items():
    if pid in a.PROPS:
        if cfg != a.PROPS[pid]:
            print("PROPS[%s] differs from /verif's (not merged):" % pid, json.dumps(cfg)[:400])
        continue
    block = '    "%s": %s,\n' % (pid, json.dumps(cfg, indent=4).replace("true", "True").replace("false", "False").replace("null", "None").replace("\n", "\n    "))
    src = src.replace("PROPS = {\n", "PROPS = {\n" + block, 1)
    print("PROPS +", pid)
open("/verif/checks_config.py", "w").write(src)
# known findings
ka = json.load(open("/verif/known_findings.json")); kb = json.load(open(W + "/known_findings.json"))
for k in kb.get("known", []):
    same = [x for x in ka["known"] if x.get("property") == k.get("property") and x.get("class") == k.get("class")]
    removed = [tuple(l.split()) for l in open("/verif/tools/removed_known.txt")]
    if not same and (k.get("property"), k.get("class")) not in removed:
        ka["known"].append(k); print("known +", k.get("property"), k.get("class"))
for k in kb.get("fixed", []):
    if k not in ka["fixed"]:
        ka["fixed"].append(k); print("fixed +", k[:100])
json.dump(ka, open("/verif/known_findings.json", "w"), indent=1)
