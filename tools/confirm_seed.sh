#!/bin/sh
# tools/confirm_seed.sh <name> <pkgdir> [go test -run pattern]
# Confirms an attacker's mutation in ITS scratch worktree /tmp/mut/<name>/repo: baseline + touched-package tests pass
# with the patch, the demo fails with it and passes without it.
N=$1; PKG=$2; PAT=${3:-.}
W=/tmp/mut/$N/repo; O=/tmp/mut/$N/out
export GOFLAGS=-mod=mod GOPROXY=off GOSUMDB=off GOTOOLCHAIN=local
mkdir -p /tmp/mut/$N/mod && cp $W/go.mod $W/go.sum /tmp/mut/$N/mod/ && grep -q standin /tmp/mut/$N/mod/go.mod || echo 'replace github.com/cossacklabs/themis/gothemis => /tmp/standin/gothemis' >> /tmp/mut/$N/mod/go.mod
cd $W || exit 1
git checkout -q -- . ; git clean -fdq
git apply $O/patch.diff || { echo "PATCH DOES NOT APPLY"; exit 1; }
TOUCHED=$(git diff --name-only | xargs -n1 dirname | sort -u | sed 's#^#./#' | tr '\n' ' ')
echo "== baseline with patch"; go test -vet=off -count=1 ./sqlparser/... ./keystore/v2/keystore/signature/... ./keystore/v2/keystore/filesystem/backend/... 2>&1 | grep -v "no test files" | grep -v "^ok" | head -5
echo "== package tests with patch: $TOUCHED"; go test -modfile=/tmp/mut/$N/mod/go.mod -vet=off -count=1 $TOUCHED 2>&1 | grep -v "no test files" | tail -6
cp $O/demo_test.go $PKG/zz_demo_test.go
echo "== demo WITH patch (expect FAIL)"; go test -modfile=/tmp/mut/$N/mod/go.mod -vet=off -count=1 -run "$PAT" ./$PKG/ 2>&1 | grep -E "VIOLATED|HOLDS|^ok|^FAIL|^--- FAIL" | sort | uniq -c | head -6
git diff -- . ':!*zz_demo_test.go' > /tmp/mut/$N/applied.diff; git checkout -q -- .
echo "== demo WITHOUT patch (expect PASS)"; go test -modfile=/tmp/mut/$N/mod/go.mod -vet=off -count=1 -run "$PAT" ./$PKG/ 2>&1 | grep -E "VIOLATED|HOLDS|^ok|^FAIL|^--- FAIL" | sort | uniq -c | head -6
rm -f $PKG/zz_demo_test.go; git clean -fdq
