#!/usr/bin/env python3
"""tools/set_props.py <workspace-name> <ID>: replace PROPS[<ID>] of /verif/checks_config.py by the entry of the work package's copy."""
import sys, json, importlib.util
name, pid = sys.argv[1], sys.argv[2]
spec = importlib.util.spec_from_file_location("b", "/tmp/w/%s/verif/checks_config.py" % name); b = importlib.util.module_from_spec(spec); spec.loader.exec_module(b)
cfg = b.PROPS[pid]
block = '    "%s": %s,\n' % (pid, json.dumps(cfg, indent=4).replace(": true", ": True").replace(": false", ": False").replace(": null", ": None").replace("\n", "\n    "))
lines = open("/verif/checks_config.py").read().split("\n")
start = lines.index('    "%s": {' % pid)
end = next(i for i in range(start + 1, len(lines)) if lines[i] in ("    },", "    }"))
lines[start:end + 1] = block.rstrip("\n").split("\n")
open("/verif/checks_config.py", "w").write("\n".join(lines))
spec = importlib.util.spec_from_file_location("a", "/verif/checks_config.py"); a = importlib.util.module_from_spec(spec); spec.loader.exec_module(a)
assert a.PROPS[pid] == cfg, "round trip failed"
print("PROPS[%s] replaced (%d domains, properties=%s)" % (pid, len(cfg["domains"]), cfg.get("properties")))
