#!/usr/bin/env python3
"""tools/merge_props.py <workspace> <ID> [<ID>...]: replace PROPS[ID] in /verif/checks_config.py by the workspace copy's block (prints what main had that the copy lacks)."""
import importlib.util, json, sys
def load(p, n):
    s = importlib.util.spec_from_file_location(n, p); m = importlib.util.module_from_spec(s); s.loader.exec_module(m); return m
ws = sys.argv[1]
a = load('/verif/checks_config.py', 'a'); b = load('/tmp/w/%s/verif/checks_config.py' % ws, 'b')
s = open('/verif/checks_config.py').read()
for pid in sys.argv[2:]:
    A = a.PROPS[pid]; B = b.PROPS[pid]
    for k in set(A) | set(B):
        if A.get(k) != B.get(k):
            print(pid, 'DIFF', k)
            if isinstance(A.get(k), list):
                for x in A[k]:
                    if x not in B.get(k, []): print('   main only:', json.dumps(x)[:220])
    i = s.index('    "%s": {' % pid); j = s.index('\n    },\n', i) + len('\n    },\n')
    block = '    "%s": %s,\n' % (pid, json.dumps(B, indent=4).replace("true", "True").replace("false", "False").replace("null", "None").replace("\n", "\n    "))
    s = s[:i] + block + s[j:]
open('/verif/checks_config.py', 'w').write(s)
