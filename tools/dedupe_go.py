#!/usr/bin/env python3
"""tools/dedupe_go.py <prefix> <file>...: rename top-level identifiers in the given files (one agent's group) that are
redeclared elsewhere in package main of harness/cmd/acra-vh, by prefixing them."""
import re, subprocess, sys, os
prefix, files = sys.argv[1], sys.argv[2:]
env = dict(os.environ, GOFLAGS="-mod=mod", GOPROXY="off", GOSUMDB="off", GOTOOLCHAIN="local")
for it in range(30):
    p = subprocess.run(["go", "build", "-tags", "verif", "-gcflags=-e", "-o", "/dev/null", "./cmd/acra-vh"], cwd="/verif/harness", env=env, capture_output=True, text=True)
    names = set()
    for m in re.finditer(r"^(\S+\.go):\d+:\d+: (\w+) redeclared in this block\n\s+(\S+\.go):\d+:\d+: other declaration", p.stderr, flags=re.M):
        f1, name, f2 = m.group(1), m.group(2), m.group(3)
        if any(f.endswith(os.path.basename(f1)) for f in files) or any(f.endswith(os.path.basename(f2)) for f in files):
            names.add(name)
    if not names:
        print(p.stderr[:3000]); break
    for f in files:
        s = open(f).read()
        for n in names:
            s = re.sub(r"(?<![\w.])%s\b" % re.escape(n), prefix + n[0].upper() + n[1:], s)
        open(f, "w").write(s)
    print("renamed", sorted(names))
