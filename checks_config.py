"""Per-property configuration of ./check (domains of the correspondence harness, sizes, notes)."""

COMMON_TRUSTED = [
    "Coq 8.16.1 kernel (coqc), vm_compute for finite computations and case replay; no native_compute",
    "no Axiom/Parameter/Admitted in the development (grep enforced on every run); section variables are explicit premises",
    "gothemis stand-in (/verif/harness/gothemis): Themis is MODELLED as the abstract record Crypto/Interface.v; Crypto/Stub.v is its byte-exact twin and Proofs/StubCorrect.v proves the laws for it",
    "Gen/Consts.v regenerated from the compiled /repo packages by `acra-vh consts` on every run",
    "correspondence harness (Go, /verif/harness) + canonicalisation of outcomes to ok/err/panic; Lib/Sha256.v validated against Go's crypto/sha256, crypto/hmac by every replayed case",
]


# (file under coq/Gen, acra-vh arguments that print it): regenerated from /repo on every run
GENERATORS = [
    ("HistCacheKeys.v", ["c06cachekeys"]),
    ("PoisonDetectorState.v", ["c15histstate"]),
    ("KeyImportConsts.v", ["c07impconsts"]),
    ("StagesConsts.v", ["c04stagesconsts"]),
    ("TypedRowsConsts.v", ["typedrows"]),
    ("Trans.v", ["transgo"]),
    ("WireDescConsts.v", ["wiredescconsts"]),
    ("CensorLogSites.v", ["c16fwsites"]),
    ("ColumnResolveConsts.v", ["c04colconsts"]),
    ("ColumnResolveWitness.v", ["c04colwitness"]),
    ("AuditLogCanon.v", ["auditlogcanon"]),
    ("ParsersConsts.v", ["x14parconsts"]),
    ("MysqlSessionConsts.v", ["x05myconsts"]),
    ("SqlWords.v", ["sqlwords"]),
    ("SqlKeywords.v", ["sqlkeywords"]),
    ("X18Consts.v", ["x18consts"]),
    ("WireMysqlConsts.v", ["wiremyconsts"]),
    ("CensorKinds.v", ["censorkinds"]),
    ("CensorPatterns.v", ["censorpatterns"]),
    ("CensorWitness.v", ["censorwitness"]),
    ("TypedMysqlConsts.v", ["typedmy"]),
    ("KswConsts.v", ["kswconsts"]),
    ("TypedConsts.v", ["typed"]),
    ("AuditLogConsts.v", ["auditlog"]),
    ("Prec.v", ["sqlprec"]),
    ("SqlSchema.v", ["sqlschema"]),
    ("TlsWrapper.v", ["tlswrapper"]),
    ("IsoTokenConsts.v", ["isotokenconsts"]),
    ("KeyNames.v", ["keynames"]),
    ("KsConsts.v", ["ksconsts"]),
    ("KeyStates.v", ["keystates"]),
    ("TokenConsts.v", ["tokenconsts"]),
    ("MaskConsts.v", ["maskconsts"]),
    ("WireConsts.v", ["wireconsts"]),
    ("Consts.v", ["consts"]),
]


def dom(name, run_mod, nq, nt, model=True):
    return {"name": name, "run_vo": run_mod.replace(".", "/") + ".vo", "n_quick": nq, "n_thorough": nt, "model": model}


PROPS = {
    "C17": {
        "properties": [
            "C17",
            "C17_serial"
        ],
        "domains": [
            {
                "name": "c17",
                "run_vo": "Model/RunKeystoreWrite.vo",
                "n_quick": 8,
                "n_thorough": 40,
                "model": True
            }
        ],
        "trusted": [
            "cooperative scheduler in the harness (cmd/acra-vh/c17.go): every back-end call of every real keystore handle waits for the scheduler (a handle can be paused between ANY two of its back-end calls); handles start without a key ring object, OpenKeyRingRW and the generate/destroy entry points are scheduled like the ring-level operations; the lock bookkeeping of the scheduler mirrors Model.KeystoreWrite.lock_step; schedules are enumerated depth first over the handles that can step (all of them for two handles x short programs, else all single-preemption schedules)",
            "the replay carries the back-end call of every granted step: the model must be about to make the same call (lock scope of every operation, ring creation included, is part of the correspondence)",
            "same abstraction of key ring files as C08 (vh/ksw.go)",
            "flock across processes and the Go memory model are outside the model; v1 single-handle stress under -race not done"
        ],
        "assumptions": [
            "each back-end call is atomic; Lock/RLock exclude as sync.RWMutex/flock do",
            "proved for ALL handles/programs/interleavings: lock scope, stored rings only grow, ring creation is atomic (Proofs/KeystoreLock.v); SERIALIZABILITY of the locked sections is proved unbounded (Properties/C17_serial.v, Proofs/KeystoreSerial*.v: any number of handles, any programs over the alphabet xop = writers + the readers OpenKeyRing/ListKeys, any initial storage, every schedule; forward simulation on top of the lock-discipline invariant; serial order = order of release = order in which the exclusive lock was taken); the bounded enumeration (C17_writers_serializable_bounded) is kept",
            "a locked section is what the code makes it: ring-level operations compute their transactions from the key ring object's (possibly stale) snapshot outside the lock, the section itself does not depend on the snapshot (C17_section_ignores_snapshot); generate-key/destroy-current are several sections and are NOT atomic (C17_generate_atomic_refuted, observation gen:err-key-added in the evidence: a FAILED generate may leave its never-current key behind; C17 speaks of successful operations only)",
            "implementation oracle of the theorem (cmd/acra-vh/c17ser.go): every scheduled run is compared with the serial re-execution, by fresh real handles on a fresh copy of the storage, of its locked sections in commit order (storage, results, key ring objects, what readers saw); readers run as model handles (SchedX: generic machine, call tags compared)",
            "generate (open+AddKey+SetCurrent) is three separate locked updates in acra: a generate call that fails in SetCurrent leaves its key added (counted as gen:err-key-added, not a violation of the property as stated)"
        ]
    },
    "C08": {
        "properties": [
            "C08",
            "C08_v1",
            "C08_recovery"
        ],
        "domains": [
            {
                "name": "c08",
                "run_vo": "Model/RunKeystoreWrite.vo",
                "n_quick": 4,
                "n_thorough": 40,
                "model": True
            },
            {
                "name": "c08v1",
                "run_vo": "Model/RunKeystoreWriteV1.vo",
                "n_quick": 2,
                "n_thorough": 24,
                "model": True
            },
            {
                "name": "c08tx",
                "run_vo": "Model/RunKeystoreTx.vo",
                "n_quick": 60,
                "n_thorough": 1500,
                "model": True
            }
        ],
        "trusted": [
            "v1: key file names are numbers (kind + 8*client), file content is (ordinal of the key material, all bytes present), directories are not represented: abstraction done by harness/vhv1/rig.go (Abstract/classify) from the bytes in the in-memory storage; the ordinal of what a reader returns is looked up from the plaintext of every content handed to WriteFile",
            "v1: fault-injecting wrapper vhv1.FaultFS around vh.MemFS (in-memory filesystem.Storage; TempFile names '<pattern><digits>' as ioutil.TempFile and the Redis storage do); FileStorage/Redis behaviour under real crashes is the stated hypothesis, not exercised",
            "file names are structured values and a key ring file is (signature validity bit, [(seqnum, state, key ordinal)], current): ASN.1/signature bytes, path strings (C07) and key encryption (C06) are abstracted by the harness (vh/ksw.go KswAbstract)",
            "fault-injecting wrapper vh.KswBackend around the real backend.InMemory; DirectoryBackend/flock/fsync behaviour is the stated hypothesis, not exercised",
            "c08tx: fault-injecting wrapper x08tx.Backend (several faults per operation, torn Put cut at 0 / 1 / half / all-but-one bytes) around the real backend.InMemory and, for every third history, around the real DirectoryBackend in a temporary directory (every crash and every TReopen runs the real CreateDirectoryBackend); faults are injected at Backend-call granularity: the file-system calls INSIDE DirectoryBackend.Put/RenameNX/CreateDirectoryBackend cannot be interrupted from outside, their intermediate states (root without version file, empty/partial/complete/foreign version file, leftover version.new*, missing .lock) are BUILT by the harness with the same os calls and the real open is run on them",
            "c08tx: key pair rings (client/<id>/storage): the ordinal of a pair is read from the decrypted private half and checked against the public half (hook VerifDecryptPrivateKey); import containers are produced by the real ExportKeyRings of a separate fault-free keystore, the order in which ImportKeyRings walks the container is taken from a fault-free import into a scratch keystore; imported rings contain no destroyed keys (copyKey refuses keys without data)"
        ],
        "assumptions": [
            "each back-end call is atomic; Rename is atomic and replaces its target; a completed Put (fsync) is durable; a torn write can only leave a strict prefix in the NEW file being created",
            "a key ring file holding a strict prefix of a signed ring does not verify (validity bit False)",
            "C08_recovery: histories are sequential (one process at a time; concurrency is C17); os.Rename of the version file is atomic, a cut WriteString leaves a strict prefix of the version string, a version file is 'foreign' iff it is neither the version string nor a strict prefix of it; imported rings are well formed (they come from ExportKeyRings of a well-formed keystore)",
            "v1: every filesystem.Storage call is atomic except WriteFile and Copy, which can leave a strict prefix in the file they create (TempFile can leave its empty file); Link is an atomic hard link or unsupported; Rename is atomic and replaces its target; a key file holding a strict prefix does not decrypt; one fault per operation; the clock gives a new history name and TempFile an unused name (the theorems hold for every choice, the harness only runs fresh ones)"
        ]
    },
    "C19": {
        "domains": [
            {
                "name": "c19",
                "run_vo": "Model/RunTyped.vo",
                "n_quick": 90,
                "n_thorough": 800,
                "model": True
            },
            {
                "name": "c19my",
                "run_vo": "Model/RunTypedMysql.vo",
                "n_quick": 50,
                "n_thorough": 1500,
                "model": True
            },
            {
                "name": "c19rows",
                "run_vo": "Model/RunTypedRows.vo",
                "n_quick": 40,
                "n_thorough": 600,
                "model": True
            }
        ],
        "properties": [
            "C19",
            "C19_mysql",
            "C19_rows"
        ],
        "trusted": [
            "modelled, not verified: the reveal step between the two processors is an arbitrary function of the decoded bytes (C01/C14 are about it); PostgreSQL wire framing of DataRow / RowDescription (pgproto3) around the cell and the type id; NULL cells never reach the processors (handleQueryDataPacket skips them)",
            "MySQL (Model/TypedMysql.v, Properties/C19_mysql.v): type encoders, DataDecoderProcessor / DataEncoderProcessor, updateFieldEncodedType, the fixed-length tail of ColumnDescription.Dump, the ONE-column data row of processTextDataRow / processBinaryDataRow / extractData and the rows of one result set sharing the column definition are modelled and replayed (domain c19my through the verif hook decryptor/mysql/export_verif_c19.go); not modelled: FLOAT / DOUBLE re-encoding (strconv float formatting), rows with several columns (positions: C12), packet framing and the error packet sent for an EncodingError (ProxyDatabaseConnection), a nil (0xfb) value inside a binary row",
            "Gen/TypedMysqlConsts.v regenerated from the compiled /repo packages by `acra-vh typedmy` on every run (MySQL column type ids, TypeConfigurations, specificTypes, BLOB flag, OK / EOF markers)",
            "row level (Model/TypedRows.v, Properties/C19_rows.v, domain c19rows): GetParameterFormatByIndex, BindPacket.GetResultFormats, the per-column format look-ups of parseColumns and the column loop of PgProxy.handleQueryDataPacket + onColumnDecryption are modelled and replayed: the REAL proxy (both goroutines, vh.PgRig, fake back end) answers Parse/Bind/Describe/Execute and simple sessions for rows of 1..4 columns, every DataRow / error response / closed session the client sees is replayed on handle_data_row. Inputs of the row model, not verified here: the list of settings per result position (the statement analysis, C04), the reveal step per cell (the harness tells the model `revealed to the original` exactly when the reader owns the keys and the stored value is a whole envelope; C01/C14), the byte framing of DataRow / Bind (pgproto3 on both ends of the rig; parseColumns' splitting and updateDataFromColumns: C12); the fake back end sends bytea text output as \\x + hex",
            "Gen/TypedRowsConsts.v regenerated from the compiled /repo packages by `acra-vh typedrows` on every run (bindFormatText / bindFormatBinary / dataFormatText / dataFormatBinary through the add-only hook decryptor/postgresql/export_verif_s64.go, base.TextFormat / BinaryFormat, the two flags of the substitute setting &config.BasicColumnEncryptionSetting{})",
            "Gen/TypedConsts.v regenerated from the compiled /repo packages by `acra-vh typed` on every run (registered encoders, type id tables, accepted data_type / response_on_fail words)",
            "strconv.ParseInt/FormatInt, encoding/hex, encoding/base64, unicode/utf8, utils.DecodeEscaped are modelled in Gallina and compared with the Go functions on every run (ops PInt, Esc, Hex, B64, Utf8)"
        ],
        "assumptions": [
            "settings of plain encryption columns (crypto_envelope + reencrypting_to_acrablocks, no tokenization / masking / searchable options)",
            "case (a) of the matrix: the protected value is a value of the declared type (integer literal of the declared width for int32/int64)",
            "rows: C19_rows_typed_outcome / C19_rows_error_policy carry the side conditions of C19_typed_outcome_matrix per column; C19_rows_unprotected_unchanged: nothing to reveal in the column and the cell does not DecodeEscaped to the empty string (exact: C19_rows_unprotected_hexlike_refuted, known finding unprotected-hexlike-value)",
            "MySQL matrix: the database's column is of a binary type (Type.IsBinaryType: BLOB family, VAR_STRING, STRING, VARCHAR), values are not empty; integer database columns are covered by C19_mysql_int_binary_cell_roundtrip and by the replay"
        ]
    },
    "C20": {
        "domains": [
            {
                "name": "c20",
                "run_vo": "Model/RunAuditLog.vo",
                "n_quick": 21,
                "n_thorough": 40,
                "model": True
            },
            {
                "name": "c20json",
                "run_vo": "Model/RunAuditLogJson.vo",
                "n_quick": 5,
                "n_thorough": 30,
                "model": True
            }
        ],
        "properties": [
            "C20",
            "C20_json",
            "C20_cef_trim"
        ],
        "trusted": [
            "modelled, not verified: logrus' rendering of an entry into the formatted bytes (TextFormatter / CEFTextFormatter / JSONFormatter output is the model's input; the harness checks that the authenticated bytes ARE the formatter's output; for JSON a spy hook records what JSONFormatterHook.PostFormat receives)",
            "JSON (C20_json): modelled from the syntax tree of the formatted entry to the BYTES that are authenticated and written (decode into float64 / json.Number, convertMapToBytes, json.Marshal incl. shortest float digits and string escaping, all replayed byte for byte); outside the model: encoding/json's tokenizer (a JSON text reaches the model as the syntax tree Go's own Decoder.Token delivers; that the written line tokenizes to to_wire of the marshalled map is replayed, op JWrite)",
            "JSON decoder configuration of writer side and verifier side (AL_JSON_WRITER_USENUMBER / AL_JSON_VERIFIER_USENUMBER) and json.Marshal's ASCII table are regenerated on every run by RUNNING JSONFormatterHook.PostFormat / JSONLogParser.ParseEntry / json.Marshal (go/ast result recorded as a comment); C20_json_same_decoder is proved from them by reflexivity",
            "strconv's shortest-round-trip guarantee is NOT assumed: the side condition of C20_honest_json_verifies checks parse(print(parse(lit))) = parse(lit) for every number literal of the history with the model's exact printer/parser (w_ok), evaluated on every replayed history (op JWf) and probed on float tables / random bits (op FloatProbe)",
            "bytes the hooks truncate (1 for plaintext, 2 for CEF) are literals inside acra functions, copied into Model/AuditLog.v (TRUNC_TEXT/TRUNC_CEF); a change is caught by the byte-exact writer replay",
            "time stamps of the service entries written by ResetChain/FinalizeChain are wall-clock: case files differ between runs in those bytes only (verdicts and scenario generation are seed-deterministic)",
            "layout of the canonical byte string of the JSON path (Gen/AuditLogCanon.v: AL_JSON_CANON_PRE/MID/POST, AL_JSON_CANON_STRING_QUOTED) is regenerated on every run by RUNNING JSONLogParser.ParseEntry on a marker entry (go/ast shape of getBytes recorded as a comment); C20_json_canonical_layout_as_modelled is proved from it by reflexivity; the semantic-edit oracle (c20jsem.go) builds its split / merge / boundary edits from the same probe and classifies an accepted edit as the recorded finding json-delimiter-ambiguity iff the two field maps coincide under the reference form (names between the probed tokens, every value as json.Marshal prints it)"
        ],
        "assumptions": [
            "no assumption on SHA-256 / HMAC: tamper theorems conclude `detected \\/ explicit SHA-256 collision (\\/ explicit SHA-256 fixed point where the number of entries changes)`",
            "model = acra with patches/fix_auditlog_last_token.diff applied (parser cuts at the last ' integrity=' token)",
            "honest histories: resets happen after an end-of-chain entry with the verifier's key (AuditLogHandler.ResetChain); entries of one chain are written by one calculator"
        ]
    },
    "C13": {
        "properties": [
            "C13",
            "C13_statements",
            "C13_lex"
        ],
        "domains": [
            {
                "name": "c13",
                "run_vo": "Model/RunSqlExpr.vo",
                "n_quick": 250,
                "n_thorough": 4000,
                "model": True
            },
            {
                "name": "c13s",
                "run_vo": "Model/RunSqlStmt.vo",
                "n_quick": 100,
                "n_thorough": 2500,
                "model": True
            },
            {
                "name": "c13lex",
                "run_vo": "Model/RunSqlLex.vo",
                "n_quick": 100,
                "n_thorough": 1500,
                "model": True
            }
        ],
        "level": "proof",
        "notes": [
            "proof on the expression fragment (C13, partial) and on whole SELECT/UNION/INSERT/UPDATE/DELETE statements incl. sub-selects, joins, CASE/CONVERT/INTERVAL/COLLATE/function calls, quoted identifiers (C13_statements, partial in scope, token level); differential oracle on the whole grammar"
        ],
        "trusted": [
            "Gen/Prec.v regenerated on every run from sqlparser/sql.y (%left/%right/%nonassoc table, %prec of the prefix rules), the compiled operator strings/ValType enum of sqlparser and sqltypes.SQLEncodeMap/SQLDecodeMap",
            "modelled, not verified: the tokenizer outside string literals (identifier quoting, numbers, comments, keywords); the model's printer emits TOKENS and is tied to Format+Tokenizer by replay (OPrint), the model's parser to sql.go (goyacc output) by replay (OParse)",
            "outside the model (differential oracle Parse(String(t)) = t only): DDL, table expressions/joins, sub-selects, UNION, CASE, CAST/CONVERT, INTERVAL, COLLATE, JSON operators, casts (::type), qualified/DISTINCT function calls, aliases, ORDER/GROUP/LIMIT, INSERT/UPDATE/DELETE clause level",
            "sql.go is the goyacc output committed in /repo; it is what runs. A change of sql.y alone changes Gen/Prec.v (proofs then fail) but not the running parser",
            "C13_statements: Gen/SqlWords.v regenerated on every run (`acra-vh sqlwords`, hook sqlparser.VerifKeywords): the tokenizer's keyword table (= the table formatID consults), the keyword tokens of the model's grammar with their compiled spelling, non_reserved_keyword / function_call_nonkeyword / interval_units of sql.y, the convert_type and keyword-function alternatives (checked against sql.y, generation fails when they disappear), clause strings and the LimitType enum of ast.go",
            "C13_statements, modelled not verified: (1) the statement parser of the model is a recursive-descent parser for the PRINTED language (aliases with AS, one spelling per operator); it is tied to the LALR parser sql.go by replay on every printed tree incl. trees the grammar cannot build (SRound: parse result, syntax error, wf verdict), not on arbitrary input text; (2) the theorems are about tokens: the byte-exact text printer (stext) and the tokenizer model (lex) are replayed against String() / Tokenizer on every case and on token soup (SLex); toks(pp t) = print t is proved, lex(stext t) = print t is NOT (C13_escape_roundtrip covers string literals); (3) identifiers with bytes >= 0x80 are treated as must-quote (Go iterates runes and truncates them to 16 bits); (4) the reflect/type-switch export of real trees to model terms (c13s_export.go)",
            "C13_lex (Properties/C13_lex.v, domain c13lex): the tokenizer link lex(stext t) = print t is now PROVED over the tokenizer model SqlStmtText.lex for every well-formed statement whose pieces are locally lexable (loc: decidable; holds for every identifier/keyword the printer emits, constrains literal and cast spellings, bind variables numbered in print order) and that does not use an unquoted \"@@\" name as a qualifier (refuted: known finding lex-sysvar-qualifier). Still trusted: that SqlStmtText.lex is the real Tokenizer for comment-free text (replayed: c13s SRound/SLex, c13lex LAdj on every tree incl. hostile edits, LLex on every ordered pair of lexeme classes glued and spaced); no refinement proof between SqlStmtText.lex and the checked C14 model Model/SqlTokenizer.v (C14_tok_spec_is_C13_scanner covers string scanning only); loc is a premise, not derived from wf (replayed: every parser-built round-tripping tree must satisfy adj_ok)",
            "C13_statements, outside the model (counted as outside:* in the evidence; differential oracle of the c13 domain only): comments, SQL_CACHE/STRAIGHT_JOIN hints, PARTITION clauses, index hints, NEXT VALUE, SUBSTR, MATCH, GROUP_CONCAT, JSON operators, DEFAULT(col), charsets in CONVERT types, casts of non-literals, list arguments, sub-selects whose text starts with '(' , qualified keyword-named functions, single-quoted names outside aliases, MySQL ANSI mode, DDL/SET/SHOW/PREPARE"
        ],
        "assumptions": [
            "wf e (= the tree is one the yacc parser can build) as the premise of the round-trip theorems; subst_ok (replacement literal well-formed, no non-integer -> integer change) for substitution",
            "escape round trip: text after the literal does not start with a quote (a doubled quote continues the literal)",
            "C13_statements: wf_stmt pg t (= the tree is one sql.y can build in that dialect: precedence respected or explicit ParenExpr, join shapes, no ORDER/LIMIT on a union member, identifiers printable in their position, literal spellings) as the premise of the round trip; lit_adm (replacement literal well-formed, integer/string only where one stood, not negative directly under COLLATE) for substitution; both premises are evaluated on every replayed tree (wf must be True exactly when Go round-trips it)"
        ]
    },
    "C16": {
        "domains": [
            {
                "name": "c16",
                "run_vo": "Model/RunSqlRedact.vo",
                "n_quick": 500,
                "n_thorough": 4200,
                "model": True
            },
            {
                "name": "c16fw",
                "run_vo": "Model/RunCensorLog.vo",
                "n_quick": 400,
                "n_thorough": 6000,
                "model": True
            }
        ],
        "trusted": [
            "Gen/SqlSchema.v is printed by `acra-vh sqlschema` (go/parser over the sqlparser sources compiled into the harness): node types, SQLNode-typed fields, the fields each walkSubtree hands to Walk, the ValType enum, sqlToBindvar's conversion table, the redact-mode flag, HandleRawSQLQuery's NotParsedStatement branch, the arguments of the partial-DDL log call, and for the normalizer's visit functions WalkStatement/WalkSelect what each case of the type switch does with the node and returns to Walk (abstract run of the clause's statements for both answers of convertComparison; VISIT_STATEMENT, VISIT_SELECT, CMP_REPORTS_*). The extraction is syntactic (selectors on the receiver inside walkSubtree count as walked; a clause the reader does not understand is printed as VA_unknown/VR_unknown and stops the proof); the visit tables are cross-checked on every run by a probe of the compiled package (VISIT_PROBE: sentinel literals below each specially handled node kind, theorem C16_visit_probe_agrees)",
            "modelled, not verified: the SQL grammar and printer (which literal positions exist, how a tree is printed) - covered only by the marker oracle on the real parser; reflection-based AST -> generic tree conversion in the harness; sqltypes.NewValue's accept/reject answer is an input of the model (field ok of AVal)",
            "hook sqlparser/export_verif.go (VerifRedactInPlace = Redact with the ValueMask prefix); the oracle compares its printed result with HandleRawSQLQuery's redacted text on every case",
            "Gen/CensorLogSites.v is printed by `acra-vh c16fwsites` (go/ast over acra-censor/acra-censor_implementation.go, acra-censor/handlers/*.go, and the named results of Parser.HandleRawSQLQuery in sqlparser/ast_methods.go): every call of AcraCensor.HandleQuery that logs, calls one of the firewall's own methods, a handler's CheckQuery, or receives a value derived from the statement, with the branch of the control flow it stands in (from the enclosing conditions) and which value each argument is (raw statement / normalized / redacted text / parsed statement: flow-insensitive propagation through the assignments); the guarded clauses and log calls of logAllowedQuery / logDeniedQuery (level, format, which parameter each argument or field value refers to, %T or not); the log calls of the handlers' CheckQuery methods. Syntactic: a log call is a logrus level method on a receiver chain rooted in `log`/`logrus`/`*logger`; what the reader does not understand is printed as CB_unknown / CA_unknown / CS_unknown and stops the proof (tables_understood)",
            "the control-flow skeleton of HandleQuery in Model/CensorLog.v (which branches run for which handler verdicts) is hand-written and tied to the code by the replay of real firewall runs (domain c16fw, Model/RunCensorLog.v: log entries of logger service=acra-censor compared entry by entry: level, message head, which text of the statement the entry carries); handler verdicts are inputs (asked of the real handler objects one by one through the hook acra-censor/export_verif.go VerifHandlers)",
            "the older hand-written log model of Model/SqlRedact.v (censor_handle, proxy_debug_log, partial_ddl_log) is tied to the code by the log-capturing oracle only; the proxies are not run"
        ],
        "assumptions": [
            "literal ValTypes = every member of the ValType enum except ValArg, PgPlaceholder, UnknownVal (specification, Model/SqlRedact.v non_literal_names)",
            "type parameters (ColumnType/ConvertType Length, Scale) are part of a statement's shape, not client values (TYPE_PARAMETER_FIELDS)"
        ]
    },
    "C02": {
        "properties": [
            "C02",
            "C02_readpath"
        ],
        "domains": [
            {
                "name": "c02",
                "run_vo": "Model/RunEnvelope.vo",
                "n_quick": 30,
                "n_thorough": 900,
                "model": True
            },
            {
                "name": "c02tls",
                "run_vo": "Model/RunTls.vo",
                "n_quick": 6,
                "n_thorough": 120,
                "model": True
            },
            {
                "name": "c02ks",
                "run_vo": "Model/RunKeyNames.vo",
                "n_quick": 5,
                "n_thorough": 60,
                "model": True
            },
            {
                "name": "c02tok",
                "run_vo": "Model/RunIsoTokens.vo",
                "n_quick": 22,
                "n_thorough": 400,
                "model": True
            },
            {
                "name": "c02rp",
                "run_vo": "Model/RunReadPath.vo",
                "n_quick": 24,
                "n_thorough": 240,
                "model": True
            }
        ],
        "trusted": [
            "Gen/TlsWrapper.v: go/ast reading of tls_service.go / api_grpc.pb.go by `acra-vh tlswrapper` (syntactic shape of each wrapper method); cross-checked every run against the compiled DecryptService method set and by forged requests through the real wrapper",
            "modelled, not verified: gRPC transport, TLS handshake and certificate-to-id mapping (network/tls_authentication.go); the keystore is reduced to 'the keyset an identity resolves to'",
            "hooks (verif build tag, add-only): network/export_verif.go (constructor of the client-id carrying connection), pseudonymization/export_verif.go (generateDataID and storage constants)",
            "key store part: storage names only; key-encryption contexts and the Themis cell are exercised by the harness (relocation oracle), not modelled; harness/vh/memfs.go (in-memory filesystem.Storage written for the harness) and vh.SpyBackend record the paths the real key stores access; Gen/KeyNames.v is derived from those observations with a probe id; ValidateID's rune loop is modelled as a byte loop over the accepted byte set probed from the real function; Go's filepath.Join/Clean is not modelled (name_v2 is defined only for ids that Join leaves verbatim; JoinPlain cases tie that predicate to the real filepath.Join)",
            "read-path part (domain c02rp, Properties/C02_readpath.v): harness/c02rprig builds the PostgreSQL / MySQL proxy factories like cmd/acra-server (in-memory token storage wrapped by the real SCellEncryptor) and drives them without the wire through the add-only hooks export_verif_s65.go (encryptor/{postgresql,mysql}: QueryDataEncryptor.encryptWithColumnSettings; decryptor/{postgresql,mysql}: the query encryptors of a proxy) and the x11old hooks (onColumnDecryption, subscribers); modelled, not verified: how the proxies put the access context of the connection and the setting of the column into the context (the rig does what server.go / handleDataRow do); settings of one flavour per schema, token_type bytes, no zones, MySQL decoder / encoder outside the driven chain",
            "token part: modelled TokenType_Bytes only; MemoryTokenStorage (boltdb/redis scope by the same AggregateTokenContextToBytes: read, not modelled); hex.EncodeToString of map keys taken as injective; TokenValue protobuf decoder restricted to canonical encodings; literals `client`/`zone` checked by replay only"
        ],
        "assumptions": [
            "Correct C (Themis seal/wrap round-trip and length laws) as an explicit premise; NO unforgeability / key-commitment assumption: isolation theorems are reductions to an explicit forgery witness or a shared key",
            "plaintext length < 2^32-1024",
            "v1 key-name injectivity excludes the legacy AcraConnector key pair purposes (refuted with them: known finding keyname-collision-legacy-connector)",
            "read path, tokens: nothing in the history of writes was protected for B (B's connection may have written values into columns naming other clients); B's own values are covered by the c02rp oracle only",
            "detokenization: no operation of the history ran under B's storage scope (B's own tokenizations are outside the statement; covered by the harness oracle); SHA-256 / HMAC collisions appear as explicit witnesses, never assumed away"
        ]
    },
    "C14": {
        "properties": [
            "C14",
            "C14_envelope",
            "C14_wire",
            "C14_tokens",
            "C14_wire_mysql",
            "C14_wire_desc",
            "C14_tokenizer",
            "C14_parsers",
            "C14_trans",
            "C14_trans2",
            "C14_bytea_runes"
        ],
        "domains": [
            {
                "name": "c14env",
                "run_vo": "Model/RunEnvelopeChecked.vo",
                "n_quick": 16,
                "n_thorough": 600,
                "model": True
            },
            {
                "name": "c12",
                "run_vo": "Model/RunWire.vo",
                "n_quick": 50,
                "n_thorough": 800,
                "model": True
            },
            {
                "name": "c12my",
                "run_vo": "Model/RunWireMysql.vo",
                "n_quick": 20,
                "n_thorough": 800,
                "model": True
            },
            {
                "name": "c12desc",
                "run_vo": "Model/RunPgDesc.vo",
                "n_quick": 20,
                "n_thorough": 600,
                "model": True
            },
            {
                "name": "c14tok",
                "run_vo": "Model/RunSqlTokenizer.vo",
                "n_quick": 250,
                "n_thorough": 6000,
                "model": True
            },
            {
                "name": "c14par",
                "run_vo": "Model/RunParsersExt.vo",
                "n_quick": 16,
                "n_thorough": 400,
                "model": True
            },
            {
                "name": "c14fuzz",
                "run_vo": ".vo",
                "n_quick": 250,
                "n_thorough": 6000,
                "model": False
            },
            {
                "name": "c14trans",
                "run_vo": "Model/RunTrans.vo",
                "n_quick": 60,
                "n_thorough": 3000,
                "model": True
            },
            {
                "name": "c14bytea",
                "run_vo": "Model/RunByteaRunes.vo",
                "n_quick": 60,
                "n_thorough": 3000,
                "model": True
            }
        ],
        "trusted": [
            "bytea ESCAPE decoder over runes (Model/ByteaRunes.v, Properties/C14_bytea_runes.v, domain c14bytea): utils.DecodeOctal's []rune(string(data)) is Model/Bytea.v to_runes (Go's UTF-8 decoder re-stated: one rune U+FFFD per invalid byte), unicode.IsControl = Cc of Latin-1 and utf8.EncodeRune are re-stated there; all three are tied to the real code by the replay only (valid 2-/3-/4-byte characters, overlong / surrogate / out-of-range / cut sequences x every truncation of an escape, in every tier). The consumers (PgQueryDBDataCoder.Decode of a string literal, pgBoundValue.GetData text, PgSQLDataDecoderProcessor.OnColumn text, types.ByteaDataTypeEncoder.Decode text) are modelled only as 'DecodeEscaped, value kept on ErrDecodeOctalString' for one encryption-only setting without data type",
            "Lib/GoSlice.v is the definition of Go's slice/index/make run-time checks used by the checked model (slices are modelled with cap = len, which can only add panics); tied to the real code by replaying every observed ok/err/PANIC outcome of the malformed stream on the checked model",
            "modelled, not verified: Themis itself (abstract record); processors/callbacks of the scanners are universally quantified functions that never panic",
            "Properties/C14_envelope.v holds the 55 envelope theorems of C14; Properties/C14.v re-exports it with the headline conjunction",
            "MySQL (Model/MysqlWireExt.v, Properties/C12_mysql.v, domain c12my): packet framing, classification, binary rows, column definition packets and the COM_STMT_EXECUTE parameter block are CHECKED models replayed through the add-only hook decryptor/mysql/export_verif_x12my.go; MaxPayloadLen is a parameter of the model (theorems for every value; the multi-packet branch of ReadPacket/Dump is tied to the real code only by the 16 MiB implementation oracle of the thorough tier, such literals cannot be replayed in Coq); the subscribers of a row (onColumnDecryption) and GetType/GetData/Encode of a bound value are arbitrary functions in the theorems and scripted in the replay (their own behaviour: C19 / Model/TypedMysql.v); the decimal text form of numeric parameters (strconv) is not modelled; Handler.handleStatementExecute and the capability accessors of the first packets are run on truncated packets by the implementation oracle only (hooks VerifX12HandleStatementExecute / VerifX12Capabilities), not modelled; Gen/WireMysqlConsts.v: type tables probed from extractData for all 256 type bytes and read from base.NumericTypesStorageBytes",
            "SQL tokenizer (Model/SqlTokenizer.v, Properties/C14_tokenizer.v, domain c14tok): string tokenizers only (InStream == nil, the constructors every acra entry point uses; the io.Reader refill branch of next() is not modelled); Go's utf8.DecodeRune(Last)InString and strings.IndexFunc/TrimFunc (used by ExtractMysqlComment) are re-stated in the model and tied by replay only, unicode.IsDigit/IsSpace are probed on every code point into Gen/SqlKeywords.v; bytes.ToLower is modelled as ASCII lower-casing (identifier bytes are ASCII); fmt's %d as decimal digits; the token stream of short boundary inputs is compared by record count + folded FNV-1a digest of the records (TokBatch), scripted ops byte by byte; stack use of the real tokenizer is an implementation oracle (runtime.MemStats.StackInuse around 150 000 version comments)",
            "Properties/C14_parsers.v (37 theorems, domain c14par, Model/ParsersExt.v + Model/HashExt.v): searchable-hash extractor for any hash registry (ExtractHash, ExtractHashAndData, Processor.OnColumn, NewHashProcessor / DecryptRotatedSearchable* slicing; boundary table of every length 0..70 x registered tags and neighbours x exact/spare capacity in EVERY tier), audit-log plaintext/CEF line parsers and the log file scanner, key file name parsers of keystore v1 (DescribeKeyFile, getContextFromFilename), ring path parser of keystore v2 (DescribeKeyRing), SNIOrHostname, TrimStringToN, binaryType.UnmarshalJSON, HexIdentifierConverter.Convert are CHECKED models replayed against the real functions; trusted there: strings.TrimSpace / strings.Contains keep the functional form of Model/AuditLog.v (C20), path.Clean / filepath.Dir are Model/Path.v (validated by domain c07), time.Parse (isHistoricalFilename) is an input bit, base64.StdEncoding.Decode and SHA-512 are abstract functions (decoder contract: at most DecodedLen(len src) bytes written), bufio.Scanner is modelled by its documented line/limit behaviour (exact for lines up to limit-2 and from limit on); inline string literals of describeV1/describeV2 come from go/ast (Gen/ParsersConsts.v); the JSON line parser stays under the implementation oracle (encoding/json tokenizer outside the model, see C20_json)",
            "xtr: Gen/Trans.v is produced on every run by `acra-vh transgo` (harness/xtr: go/parser + go/types over the current /repo source) for 17 functions; Properties/C14_trans.v proves each translated definition equal to the hand-written checked model for all inputs. TRUSTED: the translator (harness/xtr, about 2000 lines of Go) and its reading of Go semantics: fixed-width wrap-around of + - * << on int/uintN, truncating conversions, bounds checks of a[i] / a[i:j] with cap = len (Lib/GoSlice.v), a nil slice behaves as the empty slice, values returned beside a non-nil error are dropped, package-level variables that are never written inside their own package are constants (aliasing writes from other packages are not detected), logrus calls with identifier/constant/len arguments have no effect and do not panic, constant expressions are evaluated by go/types; anything outside the subset makes the generator fail (broken tie). The translator itself is validated by domain c14trans: the real Go functions are replayed on the translated definitions (op tag T) and on the hand models (op tag H)",
            "xtr2: extended subset of the translator (harness/xtr/ext.go), 20 acra functions + 3 self-test functions (harness/xtr/selftest, NOT acra code); Properties/C14_trans2.v. ADDED to the trusted reading of Go: append(v, ..) on an OWNED slice (a literal, or a local variable assigned only from make / nil / literals / append of itself) returns v ++ .. and nothing else observes the write (any other first argument is rejected); make([]byte, n[, c]) = n zero bytes, panics exactly when gmake does (n or c negative or above 2^47, or n > c); copy(v, src) on an owned v that is used only in len / copy / return is v := gcopy v src; `p == nil` on a never-assigned []byte PARAMETER is an extra bool parameter v_p__nil (invariant nil => len 0; callers inside the translated set are rejected), every other nil comparison on slices is rejected; `for _, x := range s` iterates over the value s had when the loop started (structural recursion on the list); `for i := a; i < b; i++` with i and b not assigned in the body runs max(0, b - a) times with i = a, a+1, .. (i+1 cannot overflow because i < b); every other loop is recursion on fuel = 1 + total length of the []byte parameters and returns Err 99 (E_OUT_OF_FUEL) when it runs out (theorem: unreachable); break / continue without label; the loop state is the tuple of outer variables assigned in the body"
        ],
        "assumptions": [
            "go_len s (len s <= 2^47, True of every Go byte slice) where the code converts len to uint64 or adds to it in int64",
            "GetDataLengthFromAcraStruct, getSerializedContainerLength, AcraBlock.EncryptedDataEncryptionKeyLength are total only under the length check all their callers perform (\u2026_unguarded_refuted witnesses)",
            "OnColumn output bound: premise on the callbacks is relative to the stretch of input a candidate covers (see C14_OnColumn_quadratic_example)"
        ]
    },
    "C18": {
        "properties": [
            "C18",
            "C18_v2import",
            "C18_v2public"
        ],
        "domains": [
            {
                "name": "c18",
                "run_vo": "Model/RunKeystore.vo",
                "n_quick": 48,
                "n_thorough": 300,
                "model": True
            },
            {
                "name": "c18v2",
                "run_vo": "Model/RunKeyRingV2Ext.vo",
                "n_quick": 12,
                "n_thorough": 120,
                "model": True
            },
            {
                "name": "c18mig",
                "run_vo": "Model/RunKeyRingV2Ext.vo",
                "n_quick": 24,
                "n_thorough": 300,
                "model": True
            },
            {
                "name": "c18pub",
                "run_vo": "Model/RunKeyRingV2Ext.vo",
                "n_quick": 9,
                "n_thorough": 54,
                "model": True
            }
        ],
        "trusted": [
            "gob (v1) serialisation is abstract in the model ([deser (ser l) = Some l] is a premise); the harness decodes the real bytes with Go's gob",
            "Properties/C18_v2import.v (21 theorems): keystore v2 export/import at key granularity (Model/KeyRingV2Ext.v: exportKeyRings, importKeyRing, copyKey, addKeyData, getters, ring histories), the DER layout of asn1.EncryptedKeys (Model/DerV2Ext.v, parse-after-serialize identity; the serializer is replayed byte-exact against the real bundle plaintext, the parser only on honest bytes: the strictness of encoding/asn1 on other inputs stays trusted, as does the DER of the outer SignedContainer which the harness decodes with acra's asn1 package) and `acra-keys migrate` (Model/MigrateV2Ext.v) are CHECKED models replayed by the domains c18v2 / c18mig; a back end is modelled as a map from ring path to ring (the signed ring file: C07 / Model/Notary.v); UTCTime values are carried as their 13 characters (time zone UTC); the identity theorem is stated for keys with one format (all that acra's ServerKeyStore creates), keys with two formats are covered by replay and the oracle only",
            "c18mig runs keystore v1 in a fresh temporary directory of the real file system (MigrateV1toV2 reads key files with os.Open) with well-formed client ids only; history file names, clock values and the nonce of the migration are normalised so that the cases depend on the seed alone",
            "Properties/C18_v2public.v (11 theorems): export without the private bit and the import of its result, over the same CHECKED models (Model/KeyRingV2Ext.v export per stored FORMAT, Model/PublicExportV2Ext.v public view / stripped rings / key-pair rings of a history); the domain c18pub enumerates export modes 1,2,4,3,6 x ring shapes (single, rotated, old / current / all keys destroyed, public-only keys, key states, no current key, symmetric rings, empty ring, API-only mixed rings and two-format keys) x targets (empty, other rings, same rings with overwrite / skip / default delegate) and replays KHist, KView, KExport, KDerRoundTrip, KRoundTrip (model export -> DER SET order -> model import, compared with the rings the real import wrote) and KImportView; its last leg (ServerKeyStore + KeyBackuper.Export/Import, the acra-keys export/import path) is oracle only because acra generates the access keys there"
        ],
        "assumptions": [
            "Correct C; serialised key list and each key shorter than 2^32-1024 bytes and non-empty; nonces of 12 bytes",
            "rejection theorems are reductions to an AEAD / MAC forgery witness",
            "known finding v2-export-all-omits-private",
            "known finding v1-migrate-rotated-keys-not-carried (C18_migrate_rotated_keys_refuted)",
            "C18_v2import: Correct C; nonces of 12 bytes; key fields shorter than 2^32-1024 bytes (DER: every length below 2^32, integers within int64); import identity is conditional on ImportKeyRings returning success (success itself is shown by the concrete Examples and the replay)",
            "C18_v2public: no crypto premise (the public-only path performs no cryptographic operation); NoDup selection; the identity is conditional on the export and ImportKeyRings returning success (success of the export is characterised exactly: C18_v2_public_export_succeeds / _contents; of the import: Examples and replay); target delegate overwrites or target lacks the selected rings",
            "known finding v2-public-export-drops-mixed-ring (C18_v2_public_export_mixed_ring_refuted)"
        ]
    },
    "C07": {
        "domains": [
            {
                "name": "c07",
                "run_vo": "Model/RunKeystore.vo",
                "n_quick": 30,
                "n_thorough": 120,
                "model": True
            },
            {
                "name": "c07open",
                "run_vo": "Model/RunRingStore.vo",
                "n_quick": 30,
                "n_thorough": 120,
                "model": True
            },
            {
                "name": "c07imp",
                "run_vo": "Model/RunKeyImport.vo",
                "n_quick": 44,
                "n_thorough": 110,
                "model": True
            }
        ],
        "properties": [
            "C07",
            "C07_open",
            "C07_import"
        ],
        "trusted": [
            "modelled, not verified: DER encoding of key rings (decoded by the harness with acra's own asn1 package; byte flips exercise the decoder), LRU eviction (cache modelled as unbounded map), history directories of v1 (C06), symlinks (paths are resolved lexically), Redis storage/backends",
            "in-memory filesystem.Storage (harness/vh/memfs.go) and the recording wrappers stand for the OS; the v2 directory backend runs on the real file system in a deep sandbox whose parents are scanned",
            "c07imp / Properties/C07_import.v (file name -> owner context on the v1 import path): Model/KeyImport.v is a CHECKED byte-level model of isPrivate / getContextFromFilename / filepath.Base / the loop of KeyBackuper.Import, replayed on names built from a client-id universe that contains every key-kind suffix in the middle / at the end / doubled / at the start (+ .old, history directories, sub-directories, poison-record names) and on Export -> Import histories; isHistoricalFilename (time.Parse) is an observed input of the model, gob decoding of the bundle is done by the harness, DescribeKeyFile (the returned descriptions) is not modelled; the legacy GenerateServerKeys / GenerateTranslatorKeys are exercised by the oracle and as names of an imported bundle, not as operations of the model; Gen/KeyImportConsts.v (poison-record names, purposes per suffix) is read / probed from the compiled packages",
            "c07open (stored bytes changed while the key store is open): recording Backend and signature.Algorithm wrappers of the harness (the adversary acts inside Backend.Get); Model/RingStore.v sees a stored file as (payload bytes, signatures) or 'does not parse' and takes the ring content of a payload and the DER of each newly signed payload from tables produced with acra's own asn1 package (DER itself is not modelled); Put(.new)+Rename is one event; locks, key-data encryption and validity periods are outside that model; v1 public key files (stored in clear, unauthenticated by design) and replay of an OLDER validly signed ring file are outside the property's quantifier and not flagged"
        ],
        "assumptions": [
            "confinement theorems: the root / key directory is an absolute path (is_rooted)",
            "owner binding and tamper evidence are reductions: either the contexts/messages are equal or an explicit AEAD / MAC forgery witness exists",
            "known finding v1-purpose-not-bound: v1 binds the owner id but not the key purpose",
            "C07_import: the inversion theorem covers the private key kinds with a suffix of their own (storage, storage_sym, hmac, server, translator) for every valid id; the legacy connector private key (file name = bare id) is refuted (C07_import_context_connector_refuted; known finding keyname-collision-legacy-connector of C02); histories with Import: the names of the imported bundle were built by the name builders for validated ids (wf_iop) and are current-key names (historical = false)"
        ]
    },
    "C06": {
        "properties": [
            "C06",
            "C06_data",
            "C06_data_v1",
            "C06_cachekeys"
        ],
        "domains": [
            {
                "name": "c06",
                "run_vo": "Model/RunKeyRotation.vo",
                "n_quick": 60,
                "n_thorough": 900,
                "model": True
            },
            {
                "name": "c06data",
                "run_vo": "Model/RunKeyData.vo",
                "n_quick": 12,
                "n_thorough": 300,
                "model": True
            }
        ],
        "trusted": [
            "harness/vh/memfs.go: in-memory implementation of acra's filesystem.Storage (os semantics of ReadDir order, hard links, rename, O_EXCL copy) under the real keystore v1; keystore v2 runs on acra's own backend.NewInMemory",
            "key versions are identified by reading the new key through a second, uncached keystore object right after each generation",
            "modelled, not verified: master-key encryption of stored keys (C07), export/import, key ring signatures and the directory/redis back ends; C06_data: listings (ListKeys / ListRotatedKeys rows: part, index, state) and current public keys are observations of the model, creation times / purpose / client-id strings and the global listing order are checked by the implementation oracle only; the data theorems compose keystore v2 (C06_data) and the UNCACHED keystore v1 (C06_data_v1, strengthened invariant: .pub label = private label) with the C01 envelope model; keystore v1 with a key cache is not composed with data (cache theorems of C06 only); v1 listing rows are theorems up to the creation times (proved strictly ascending, values replayed)",
            "Gen/KeyStates.v regenerated from /repo (asn1.NoKey, firstSeqnum via hook, api.KeyStateTransitionValid table, cache size constants)",
            "keystore v1 directory string: every v1 keystore of the domains c06 / c06data is opened on the in-memory Storage with the key directory written in one of 7 spellings of the same directory (clean, trailing slash, ./x, doubled separator, x/./y, x/../x, relative with trailing /.), cycled deterministically against the cache modes; the model has no notion of the spelling (cache keyed by file NAME): Gen/HistCacheKeys.v (`acra-vh c06cachekeys`, run-time probe of the real key store with a recording cache through the hooks filesystem.VerifSetCache / VerifCacheKeyPrefix, site = runtime.Callers function <- caller) + theorem historical_cache_keys_agree (Properties/C06_cachekeys.v) is the finite check that every place that builds a `.historical.<path>` cache key normalises the path alike; trusted: harness/vh/memfs.go resolves paths lexically (filepath.Clean of \"/\"+path on every access, working directory = /), which equals the OS resolution when no component is a symbolic link"
        ],
        "assumptions": [
            "clock readings used to name rotated key files of keystore v1 are strictly increasing (premise increasing_from of the v1 theorems; the harness checks it on every history)",
            "labels of generated key versions are pairwise distinct where a theorem says 'that key and no other' (premise NoDup (gen_labels ops))",
            "keystore v1 offers nothing from 'read all keys' while a slot has no current key (spec parameter hide = True; known finding v1-all-keys-fail-without-current)"
        ]
    },
    "C09": {
        "properties": [
            "C09",
            "C09_conditions",
            "C09_resolution",
            "C09_alias",
            "C09_composition"
        ],
        "domains": [
            {
                "name": "c09",
                "run_vo": "Model/RunSearch.vo",
                "n_quick": 20,
                "n_thorough": 400,
                "model": True
            },
            {
                "name": "c09res",
                "run_vo": "Model/RunSearchResolve.vo",
                "n_quick": 24,
                "n_thorough": 400,
                "model": True
            }
        ],
        "trusted": [
            "the storage is MODELLED: it evaluates the rewritten condition literally (substr/=/<>/AND/OR over byte strings); harness/vh/pgeval.go is its twin on the pg_query parse tree of the REAL rewritten statement",
            "selection of the comparisons to rewrite: the SHAPE test of FilterSearchableComparisons (operand order, casts, literal/placeholder, PostgreSQL and MySQL) is modelled (Model/SearchExt.v `selected`/`hashed`) and under C09_rewritten_condition_equivalent; table/alias resolution, joins, column = column, UPDATE/DELETE/INSERT..SELECT, sub-selects remain oracle/correspondence only (single table `t`)",
            "casts (PostgreSQL ::type, MySQL CAST/convert(.., binary)) are the identity on bytes in the modelled storage and in both evaluators (harness/vh/pgeval.go, harness/x09sql/myeval.go on the sqlparser AST of the re-parsed rewritten MySQL statement)",
            "hmac.Processor is modelled with an arbitrary envelope matcher and arbitrary subscribers in between; the replay instantiates them with the models of EnvelopeMatcher / OldContainerDetectorWrapper (Model/EnvelopeOld.v, owned by C01_old); decoder/encoder/token/masking subscribers of the proxies are not in the replayed chain",
            "HashQuery.OnBind's early return when ParseSearchQueryPlaceholdersSettings reports more placeholders than indexes (only reachable with consistently tokenized columns) is not modelled",
            "SQL literal / bound-parameter decoding (PgQueryDBDataCoder.Decode, pgBoundValue.GetData) is exercised by the harness, not modelled",
            "HMAC-SHA-256 (Lib/Sha256.v) is an executable definition validated against Go's crypto/hmac on every replayed case; no injectivity is assumed, exactness theorems are reductions to an explicit collision",
            "composition (Properties/C09_composition.v, Model/SearchCompose.v): the database's ROW SELECTION is MODELLED, not replayed: joined rows = one row of every base table of the FROM list (INNER JOIN, every ON condition evaluated on the complete joined row), name look-up by the rule of Model/SearchResolveSpec.v, = / <=> / <> on byte strings without NULLs, substr(e,1,33) literal, casts / convert(..,binary) identity on bytes, LIKE / other operators / other row-independent expressions universally quantified; the in-harness evaluator of oracle (C) of domain c09res (proper SQL scoping, real parse trees) is its independent twin on generated statements; bound values after OnBind are a premise of the statement-level theorem (index of the plaintext for the placeholders on_bind lists, unchanged otherwise), the link to the model's on_bind is C09_composition_on_bind_lists_selected_placeholders, the values themselves are C09_bound_values_after_bind's (single-table model)"
        ],
        "assumptions": [
            "none beyond the hypotheses written in each theorem (no Correct C law is needed)",
            "C09_composition_*: statement premises = those of C09_resolution_rewritten_iff_spec (scope_ok, pg_listed; ref_ok / operand_ok for every selected comparison) + flat_s (no sub-select / derived table: the known findings subselect-outer-scope, derived-*) + cmp_ok (selected: value is a literal, PostgreSQL cast literal, bare placeholder, or another searchable column under = / <> / MySQL <=>; unselected: references no protected column); stored image db_rel (searchable cell = index(plaintext) ++ anything, cell without setting = plaintext, every row has its table's searchable columns)"
        ]
    },
    "C10": {
        "domains": [
            {
                "name": "c10",
                "run_vo": "Model/RunTokens.vo",
                "n_quick": 48,
                "n_thorough": 500,
                "model": True
            }
        ],
        "trusted": [
            "modelled, not verified: token metadata times (created/accessed) and access-time granularity; redis store; Go-level data races (every storage operation is atomic in the model)",
            "the encrypting storage wrapper is modelled as transparent except for Secure Cell's refusal of empty messages; its round trip is C01/C03's AcraBlock theorem",
            "protobuf (TokenValue) is modelled for the two fields the tokenizer writes; math/rand.Int31n over the crypto source is re-implemented byte-exactly and validated by every replayed case",
            "inline literals of the acra code not reachable by the generator: \"client\"/\"zone\" (generateDataID, AggregateTokenContextToBytes); the two length thresholds of randomEmail (inline len(\"a@b.cc\")/len(\"a@b.cdef\")) are MEASURED by the tokenconsts generator on the compiled tokenizer (lengths 0..24 x every forced TLD index) - that the code has exactly the two-threshold structure of the model is validated by the replay (e-mail length x TLD sweep)"
        ],
        "assumptions": [
            "consistency/injectivity/reversibility theorems are over histories without token removal (and reversibility without disabling) - the refuted variants show the premises are necessary",
            "tokens_injective is a reduction: equal values or an explicit SHA-256 collision on distinct inputs"
        ]
    },
    "C15": {
        "properties": [
            "C15",
            "C15_legacy",
            "C15_history"
        ],
        "domains": [
            {
                "name": "c15",
                "run_vo": "Model/RunPoison.vo",
                "n_quick": 16,
                "n_thorough": 120,
                "model": True
            },
            {
                "name": "c15old",
                "run_vo": "Model/RunLegacyChain.vo",
                "n_quick": 10,
                "n_thorough": 150,
                "model": True
            },
            {
                "name": "c15hist",
                "run_vo": "Model/RunPoisonHistory.vo",
                "n_quick": 16,
                "n_thorough": 144,
                "model": True
            }
        ],
        "trusted": [
            "history part (C15_history, domain c15hist): Gen/PoisonDetectorState.v is a go/ast reading (`acra-vh c15histstate`) of the struct declarations and method bodies of PoisonRecordDetector, EnvelopeDetector, DecryptHandler, RegistryHandler, TranslatorService: field list, receiver kind, receiver fields a method assigns / takes the address of / hands to sync/atomic or to a mutating method (Store, Add, Swap, Lock, ...), package-level variables of the declaring file; state kept elsewhere (a package-level variable of another file, behind an interface such as the keystore or the callback storage, in the context) is not seen by that table - the harness oracle `prefix independence' (long-lived object vs fresh object on the same value at the same moment) is what covers it; the keystore is vh.MemKeystore mutated between values (ErrKeysNotFound per kind as the filesystem keystore answers it)",
            "legacy part (C15_legacy): the detector is the one postgresql.NewProxyFactory(...).New builds with a callback storage (hook export_verif_x11old.go: its callback ids, in order, are asserted on every scenario, also for the MySQL factory); modelled, not verified: PostgreSQL's handleDataRow around the column loop (the loop itself is Model/LegacyChain.v row_ev, replayed by C11's domain), the MySQL response handler, decoder/encoder subscribers for columns WITH a data type id (C19)",
            "modelled, not verified: what the callbacks themselves do (poison.StopCallback exits, ExecuteScriptCallback starts a script): a callback is the event `Callback` plus an optional error",
            "delivery = the return of OnColumn / of the translator operation (the wire encoding after it is C12/C13)"
        ],
        "assumptions": [
            "Correct C for the poison-record creation theorems; detection/no-False-alarm theorems hold for any C",
            "history theorems: every value carries the poison keys the keystore holds when it is given (no relation between successive keystore states assumed); the callback storage is fixed before the first value (SetPoisonRecordCallbacks / NewTranslatorService / proxyFactory.New)",
            "no_False_alarm is stated on the decrypt function's results (no unforgeability assumed) and as a reduction to an explicit opening witness",
            "prefix in front of the record is quiet (C01) in the detection theorems",
            "raw (legacy) records: the column holds no container header (no_container: the container pass matches nothing - else known finding raw-poison-next-to-container), no AcraStruct tag occurrence starts in front of the record (AcraBlock form: nor inside it); AcraBlock form with arbitrary callbacks after the detector: 'callbacks ran or the column was aborted'"
        ]
    },
    "C11": {
        "properties": [
            "C11",
            "C11_legacy",
            "C11_lookalike"
        ],
        "domains": [
            {
                "name": "c11",
                "run_vo": "Model/RunMasking.vo",
                "n_quick": 40,
                "n_thorough": 60,
                "model": True
            },
            {
                "name": "c11old",
                "run_vo": "Model/RunLegacyChain.vo",
                "n_quick": 6,
                "n_thorough": 120,
                "model": True
            }
        ],
        "trusted": [
            "modelled, not verified: the encryptor chain around the masking encryptor (C19); legacy part (C11_legacy): how a SELECT's text becomes the per-column setting list (EncryptionSettingExtractor: the list is an input of the row model, validated by replaying whole rows fetched through the in-process proxy), decoder/encoder subscribers for columns WITH a data type id (C19), the MySQL response handler (its detector callbacks are asserted to be the modelled ones)",
            "write path (C11_lookalike): the encryptor chain [EncryptHandler; masking.DataEncryptor; ReEncryptHandler] is built by the harness in the order proxyFactory.New builds it (and exercised end to end by INSERTs through the in-process proxy, oracle only); OnlyEncryption() of a setting is modelled as 'no masking pattern' (settings in scope carry masking or nothing)",
            "legacy part: the model is the FIXED OldContainerDetectorWrapper (patches/fix_wrapper_acrablock_alias.diff applied to /repo): ProcessAcraBlocks gets its own output buffer",
            "the model is the FIXED masking.Processor (patches/fix_masking_forged_header.diff applied to /repo)"
        ],
        "assumptions": [
            "Correct C only where the C01 round trip is invoked (C11_protects_*); read-side theorems hold for any C",
            "window_clear: no complete well-formed envelope at a tag position inside the clear window (implied by C01's quiet; always True for right windows <= 12 bytes)",
            "pattern <> envelope-as-seen (always True for patterns <= 12 bytes)",
            "non-owner = the decrypt step returns an error or the unchanged container (cannot_open)",
            "raw (legacy) stored values: window_quiet = no container header anywhere in the stored value (else known finding legacy-raw-next-to-container), no AcraStruct/AcraBlock tag occurrence starts in the clear window, and none in the delivered view (the second raw pass re-reads it); AcraBlock form: no 8-byte tag run in the stored value"
        ]
    },
    "C04": {
        "properties": [
            "C04",
            "C04_mysql",
            "C04_portal",
            "C04_resolution",
            "C04_stages"
        ],
        "domains": [
            {
                "name": "c04",
                "run_vo": "Model/RunProxy.vo",
                "n_quick": 60,
                "n_thorough": 600,
                "model": True
            },
            {
                "name": "c04portal",
                "run_vo": "Model/RunProxyPortal.vo",
                "n_quick": 40,
                "n_thorough": 400,
                "model": True
            },
            {
                "name": "c04my",
                "run_vo": "Model/RunProxy.vo",
                "n_quick": 60,
                "n_thorough": 600,
                "model": True
            },
            {
                "name": "c04col",
                "run_vo": "Model/RunColumnResolve.vo",
                "n_quick": 8,
                "n_thorough": 150,
                "model": True
            },
            {
                "name": "c04stages",
                "run_vo": "Model/RunStages.vo",
                "n_quick": 36,
                "n_thorough": 420,
                "model": True
            }
        ],
        "trusted": [
            "in-process rig (harness/vh/pgrig.go): harness ClientSession over net.Pipe, scripted client and fake back end built on pgproto3; the fake back end decodes forwarded statements with the real PostgreSQL parser (pg_query) and implements bytea/text input/output conversion itself",
            "statement analysis (encryptor/postgresql/queryDataEncryptor.go on pg_query trees), bind-parameter handling, text/binary re-encoding (data_encoder.go, types/) are covered by the end-to-end oracle only; the Coq model starts at the abstract statement form",
            "rig keystore answers fs.ErrNotExist for identities without keys, like keystore/filesystem",
            "not covered: tokenized / typed (data_type) / masked columns, searchable columns are oracle-only (C09-C11, C19 own them), TLS, censor",
            "MySQL path (domain c04my, harness/myrig): in-process rig = harness ClientSession over net.Pipe, decryptor/mysql.NewProxyFactory(...).New with both proxy goroutines, scripted client (COM_QUERY, COM_STMT_PREPARE/EXECUTE/CLOSE, with and without CLIENT_DEPRECATE_EOF) and a recording fake MySQL server written from the protocol documentation; the fake server reads forwarded statements with its OWN lexer for MySQL literals (harness/myrig/sql.go, twin of Model/ProxyMysql.v my_read_literal), not with acra's sqlparser",
            "MySQL statement analysis (encryptor/mysql on sqlparser trees), placeholder mapping, COM_STMT_EXECUTE packet re-encoding and the result row handlers are covered by the end-to-end oracle and the Sess/Read replay on the abstract statement form; the literal coder (dbDataCoder.go + UpdateExpressionValue + SQLVal.Format) is modelled and replayed byte for byte (op MyLit); utf8.Valid / strconv.Atoi are parameters of the model (their answers are part of the replayed op)",
            "portal domain (c04portal, harness/vh/pgportal.go): message-level scripted client and a portal-capable fake back end written from the PostgreSQL protocol documentation (statement runs at the first Execute, max_rows / PortalSuspended, skip-to-Sync after an error, portals dropped at Sync outside a transaction block, a simple Query ignored while skipping); the back end waits after every CommandComplete / PortalSuspended / EmptyQueryResponse / ErrorResponse / ReadyForQuery until the scripted client has received it and samples pendingQueryPackets (hook decryptor/postgresql/export_verif_portal.go VerifPendingEntries) before it answers an Execute: the head of that sample is replayed on Model/ProxyPortal.v; the client side of the proxy is never slowed down (pipelining is real); the row oracle compares what the client received with what the back end sent for the same Execute (terminator log of the back end)",
            "portal model: the theorems C04_portal_* are about the queue + an abstract in-order back end (Model/ProxyPortal.v Part 2); which column settings a queue entry selects (statement analysis of the text it carries) and the result-format handling stay covered by the row oracle only; RowDescription type OIDs in pipelined sessions are not checked (handleRowDescription uses the session's last parsed statement); typed (data_type: str) columns occur in this domain only as an indicator of the settings used for a row",
            "statement analysis (domain c04col, Properties/C04_resolution.v): the sqlparser front end (encryptor/mysql queryDataEncryptor.go + utils.go, encryptor/base query_data_item.go, config schema lookups, ColIdent/TableIdent spellings of sqlparser/ast.go) is modelled over the generic tree form of the REAL ASTs (reflection export harness/cmd/acra-vh/c05pat_tree.go; kinds/fields Gen/CensorKinds.v, SQLVal type numbers Gen/ColumnResolveConsts.v, witness trees Gen/ColumnResolveWitness.v: all regenerated every run) and replayed: OnQuery of the encrypting instance with a recording DataEncryptor (which SQLVal node, by tree path, with which setting; registered placeholder settings; nothing else in the AST changed), OnBind with recording BoundValues, the settings-only instance's GetQueryEncryptionSettings; no acra hook is used; trusted: the yacc parser itself, strings.ToLower = ASCII lower (generated identifiers are ASCII), the literal coder (Decode is assumed to succeed with a non-empty result on a non-empty literal: generated literals are well-formed; C04_mysql MyLit owns it), the mapping of tree paths by the harness's own reflection walk (same child numbering as the export); the SPEC (Model/ColumnResolveSpec.v) is additionally compared with the generator's own ground truth (it knows the table/column of every value and select item it writes) on every case; the PostgreSQL front end (encryptor/postgresql on pg_query trees) is NOT modelled: it stays covered by the end-to-end oracle of domain c04 only; the sqlparser front end is also exercised under the PostgreSQL dialect of sqlparser (quoted identifiers, $n placeholders), which is how encryptor/mysql's own unit tests use it, not a production path",
            "stage selection (domain c04stages, Properties/C04_stages.v, Model/Stages.v): multi-table encryptor configs (2-4 tables; table kinds = any subset of {tokenized, searchable, masked} beside a plainly encrypted column, or a listed table with nothing encrypted; every sequence of 2 and of 3 kinds and the 4-table plans at factory level, a rotating selection of plans - one feature table at every position, every order of some table sets - through the wire) on the wire rigs WITH a tokenizer (harness/vh/pgrig_s67.go NewPgRigTok, harness/myrig/rig_s67.go NewTok: in-memory token storage wrapped with the SecureCell token encryptor like cmd/acra-server); the proxy that is inspected (harness/x11rig/s67.go OpenWith; existing hooks export_verif_s55.go / export_verif_x11old.go: write chain members, column subscribers) is built by the SAME factory object the wire sessions use; the harness maps Go types of chain members / subscribers to the model's stage numbers (unknown type = 0xff = disagreement); the model covers the config keys crypto_envelope, reencrypting_to_acrablocks, token_type (str / bytes), consistent_tokenization, searchable, masking (+ defaults section); data_type / default_data_value / response_on_fail keys and config validation (validSettings) are not modelled (only valid configs are generated); StFwd replays only WHETHER a fresh value was forwarded changed (some chain member accepts the setting) - the protected form itself is C01_chain's (composition theorems C04_stages_*_forwarded_protected) and the marker oracle's; PostgreSQL text-format hex parameters of masked / non-consistently tokenized bytes columns are the known finding pg-text-hex-parameter-of-masked-or-tokenized-column",
            "MySQL replay conventions: INSERT .. ON DUPLICATE KEY UPDATE on an existing key = abstract Update, on a fresh key = abstract Insert (its ON DUPLICATE values oracle-only); statements MySQL rejects (tuple length <> column count) = abstract Other; scenarios with NULL parameters or the known-finding shape are oracle-only"
        ],
        "assumptions": [
            "Correct C as an explicit premise; tape/key well-formedness premises of the C01 theorems",
            "encryptor config column lists agree with the database's column order (SELECT * / schema-ordered VALUES)",
            "C04_resolution_*: write_regular = what a statement accepted by the database satisfies (UPDATE: a plain table is updated, tables visible under distinct names, an unqualified SET target is a column of one updated table only); result columns: read_supported (SELECT over a list of plain tables under distinct non-empty names; column references, stars, other expressions) and a known number of result columns; composition: cfg_regular (distinct table names, encrypted columns listed in `columns`)",
            "C04_portal_*: the database answers the forwarded messages in order as the PostgreSQL protocol prescribes (one terminator per Execute, skip to Sync after an error, ReadyForQuery per Sync / simple Query); the client sends a simple Query only when no extended-protocol message is unsynced (PostgreSQL ignores such a Query while it skips to Sync); multi-statement simple queries are outside (acra documents them as unsupported)"
        ]
    },
    "C05": {
        "properties": [
            "C05",
            "C05_patterns",
            "C05_clauses",
            "C05_prepared",
            "C05_mysql"
        ],
        "domains": [
            {
                "name": "c05",
                "run_vo": "Model/RunCensor.vo",
                "n_quick": 30,
                "n_thorough": 300,
                "model": True
            },
            {
                "name": "c05q",
                "run_vo": "Model/RunPgSession.vo",
                "n_quick": 100,
                "n_thorough": 1500,
                "model": True
            },
            {
                "name": "c05pat",
                "run_vo": "Model/RunCensorPattern.vo",
                "n_quick": 14,
                "n_thorough": 150,
                "model": True
            },
            {
                "name": "c05prep",
                "run_vo": "Model/RunPgPrepared.vo",
                "n_quick": 48,
                "n_thorough": 1200,
                "model": True
            },
            {
                "name": "c05my",
                "run_vo": "Model/RunMysqlSession.vo",
                "n_quick": 40,
                "n_thorough": 600,
                "model": True
            }
        ],
        "trusted": [
            "modelled, not verified: the yacc SQL parser/normalizer (formatting invariance is checked differentially on the real AcraCensor only) and common.ParsePatterns (placeholder text replacement + parse): statements and parsed patterns enter the pattern model as the tree forms of their REAL ASTs, exported by reflection (harness/cmd/acra-vh/c05pat_tree.go; kinds/field names/placeholder statements regenerated into coq/Gen/Censor{Kinds,Patterns,Witness}.v)",
            "pattern model (Model/CensorPattern.v): strings.EqualFold / strings.ToLower are modelled on ASCII (the generator keeps identifiers and keywords ASCII; non-ASCII only inside literals, which are compared byte-wise); the shape predicate wf (mandatory operands present, slice fields hold slices) is an assumption of the theorems that the replay checks on every exported tree; exact-query match results (CheckExactQueriesMatch: a map lookup) stay inputs of the chain model",
            "session models: Model/PgSession.v covers the simple query protocol ('Q'); Model/PgPrepared.v (C05_prepared, domain c05prep) covers the extended protocol around the prepared-statement registry, the portal registry and pendingQueryPackets (Parse / Bind / Execute by name, unnamed and named, re-Parse of a name; Describe / Close / Sync / Flush are forwarded without state change, as in the code: the proxy never calls DeleteStatement/DeleteCursor for a Close). Not modelled: Bind parameters and what the observers do with them (only WHICH statement they are handed is observed, by a recording query observer), RowDescription / ParameterDescription rewriting (session-scoped QueryDataItems), PortalSuspended / row-limited Execute, SQL-level PREPARE / EXECUTE / DEALLOCATE",
            "MySQL session model (Model/MysqlSession.v, C05_mysql, domain c05my): the command switch of Handler.ProxyClientConnection (COM_QUERY / COM_STMT_PREPARE with the censor verdict as input, COM_STMT_EXECUTE by id and by the MariaDB id -1, COM_STMT_CLOSE / RESET / SEND_LONG_DATA, the commands without a case, COM_QUIT, a COM_STMT_EXECUTE too short for an id), sendCommandError byte for byte, the five response handlers incl. the field trackers in both EOF modes, PreparedStatementRegistry, ProtocolState.pendingParse, and WHICH statement's column settings are in force (QueryDataEncryptor.querySelectSettings). A result set is one database event (QueryResponseHandler reads all of it in one call; stateSkipResponse therefore never spans two events). Not modelled: what OnQuery / OnBind do to the forwarded bytes (C04 owns that: only the statement identity of a forwarded packet is observed), column definition re-typing, multi-statement COM_QUERY / multi-result answers, cursors (COM_STMT_FETCH), COM_RESET_CONNECTION / COM_CHANGE_USER (the server drops its statements, the registry does not), MariaDB metadata caching, TLS switch-over, SQL-level PREPARE / EXECUTE, pipelined clients (the theorems about the system take one exchange at a time: the MySQL protocol is half-duplex)",
            "c05my: in-process rig harness/myrig/c05my_rig.go + c05my_backend.go (same wiring as the C04 MySQL rig, plus a configured AcraCensor; packet-level scripted client that keeps sequence ids and wire parts; the fake MySQL server is written from the protocol documentation, allocates statement ids from a counter, resolves id -1 to the statement prepared last and answers from a statement plan of the generator); Acra's own view of the session is read through the add-only hook decryptor/mysql/export_verif_x05my.go (installed response handler by method name, currentCommand, registry id -> text, pending statement); the settings a row was decoded with are read off the value the client receives (int32 columns with per-table default values / response_on_fail: error over undecodable cells); the expected verdict of a statement is the generator's own reading of the generated rules (tables / patterns / queries / query_ignore / allowall / denyall / no handlers, ignore_parse_error), not the model's",
            "c05prep reads Acra's own view of the session through the add-only hook decryptor/postgresql/export_verif_s43.go (registry name -> text, portal -> text, pending query packets) and through a recording QueryObserver registered like the real ones (harness/censorrig/pgrig_prep.go)",
            "in-process PostgreSQL rig (harness/vh/pgrig.go): net.Pipe pairs, scripted client and fake back end, read-start synchronisation on the proxy's database connection"
        ],
        "assumptions": [
            "queue_aligned: the database answers the statements it received in order, one completion (CommandComplete/ErrorResponse) + ReadyForQuery per statement (simple protocol, single-statement queries)",
            "C05_prepared_aligned / C05_prepared_registries_agree: the database keeps its registries from the packets it receives (Parse: name -> statement, Bind: portal -> statement of that name, Execute: queues the portal's statement), accepts every forwarded Parse and Bind, answers executions in order with one completion each, and does not drop a statement or portal on Close / at the end of a transaction (the generated sessions do not re-use a closed name before re-creating it); the database-side errors of the extended protocol (Bind/Execute of a name the database does not know, skip-until-Sync) are outside the model",
            "C05_mysql_rows_own_settings / rows_always_decoded / session_stays_usable: the MySQL server answers every command it receives as the protocol prescribes (one OK / ERR / result set per COM_QUERY and COM_STMT_EXECUTE, COM_STMT_PREPARE_OK + definition blocks with or without EOF according to CLIENT_DEPRECATE_EOF, nothing for COM_STMT_CLOSE / SEND_LONG_DATA), allocates fresh statement ids, resolves id -1 to the statement prepared last unless that PREPARE failed, and the client sends its next command after the complete answer (half-duplex); which answer the server gives (OK, error, which rows) is quantified over; the theorems about run_session (forwarded_was_accepted, denied_never_forwarded, registry_only_accepted, rejected_never_registered, rejected_statement_answer) assume nothing about the server",
            "wf (C05_patterns): statement and pattern trees have the shape the sqlparser grammar produces (no nil where the grammar always puts an operand; SQLVal.unknown only under UnknownVal); validated on every tree the harness exports"
        ]
    },
    "C12": {
        "properties": [
            "C12",
            "C12_mysql",
            "C12_mysql_resultset",
            "C12_desc",
            "C14_trans",
            "C14_trans2"
        ],
        "domains": [
            {
                "name": "c12",
                "run_vo": "Model/RunWire.vo",
                "n_quick": 150,
                "n_thorough": 2500,
                "model": True
            },
            {
                "name": "c12desc",
                "run_vo": "Model/RunPgDesc.vo",
                "n_quick": 40,
                "n_thorough": 2000,
                "model": True
            },
            {
                "name": "c12my",
                "run_vo": "Model/RunWireMysql.vo",
                "n_quick": 30,
                "n_thorough": 800,
                "model": True
            }
        ],
        "trusted": [
            "MySQL whole result sets (Model/MysqlResultSet.v, Properties/C12_mysql_resultset.v, c12myrs.go in domain c12my): the row loop of QueryResponseHandler (text protocol, AFTER fix_mysql_err_after_rows) is a hand-written model over read_packet / is_rows_end / is_err / set_data / dump with the row processing as an arbitrary function; it is tied to the code by the implementation oracle mysql-resultset-relay on the in-process rig harness/myrig/c12my_rig.go (scripted raw back end, real ProxyClientConnection / ProxyDatabaseConnection / QueryResponseHandler / PreparedStatementResponseHandler, capabilities negotiated in the connection phase) and by the MxClassify replay of every terminator / row packet of at most 300 bytes; the column-definition part of the handler and the binary row loop are covered by the oracle only",
            "modelled, not verified: Go's io.ReadFull/io.CopyN/bytes.Buffer/bufio.Writer (a reader over a byte stream yields the next n bytes or an error), encoding/binary, encoding/hex, unicode/utf8 ([]rune conversion and EncodeRune are written out in Model/Bytea.v and replayed against the real functions)",
            "the literal tag bytes 0xfb..0xfe and bounds 250/0xffff/0xffffff of decryptor/mysql/base/utils.go are written in the model (they are not named constants); the replay of the boundary table on every run ties them to the code",
            "Bind / Parse / Execute / GetSimpleQuery are CHECKED models (Lib/GoSlice.v; int(uint16)/int(uint32) written out; the NULL parameter marker 0xFFFFFFFF is a literal of utils.go tied by the replay of the edge table); several messages through one handler object are modelled as independent messages (Model/PgWire.v session: the history of the packet buffer must not show; op PgSession); PgProxy.handleClientPacket with a rewriting query observer (hooks VerifS14Proxy + VerifS32AddQueryObserver) is replayed as the handler-path op of the same message (Parse / Query; Bind through OnBind/SetParameters: implementation oracle only); not modelled (implementation oracle only, through the hook VerifS14Proxy): PgProxy.handleClientPacket / handleDatabasePacket around them (statement registry, pg_query, pgproto3's RowDescription/ParameterDescription codecs)",
            "MySQL (Model/MysqlWireExt.v, Properties/C12_mysql.v, domain c12my): packet framing, classification, binary rows, column definition packets and the COM_STMT_EXECUTE parameter block are CHECKED models replayed through the add-only hook decryptor/mysql/export_verif_x12my.go; MaxPayloadLen is a parameter of the model (theorems for every value; the multi-packet branch of ReadPacket/Dump is tied to the real code only by the 16 MiB implementation oracle of the thorough tier, such literals cannot be replayed in Coq); the subscribers of a row (onColumnDecryption) and GetType/GetData/Encode of a bound value are arbitrary functions in the theorems and scripted in the replay (their own behaviour: C19 / Model/TypedMysql.v); the decimal text form of numeric parameters (strconv) is not modelled; Handler.handleStatementExecute and the capability accessors of the first packets are run on truncated packets by the implementation oracle only (hooks VerifX12HandleStatementExecute / VerifX12Capabilities), not modelled; Gen/WireMysqlConsts.v: type tables probed from extractData for all 256 type bytes and read from base.NumericTypesStorageBytes",
            "RowDescription / ParameterDescription (Model/PgDesc.v, Properties/C12_desc.v, domain c12desc): pgproto3's Decode/Encode of both messages as acra calls them are CHECKED models (the absolute position rp of pgproto3 is carried as the tail src[rp:]); handleRowDescription / handleParameterDescription / mapEncryptedTypeToOID / HasTypeAwareSupport and the byte-level dispatch of handleDatabasePacket are modelled AFTER the fix 'declare the length of the re-encoded description' and replayed through the hook VerifS14Proxy; a ColumnEncryptionSetting enters the model as the four accessor results the handlers read (OnlyEncryption, IsSearchable, GetMaskingPattern != \"\", GetDBDataTypeID), produced in the harness by real BasicColumnEncryptionSetting objects and by a scripted wrapper for the remaining combinations; the protocol-state bookkeeping of handleDatabasePacket (pending queries, ReadyForQuery clean-up) is not modelled, only that it leaves the bytes alone (oracle pg-db-relay over all 254 other type bytes); the first answer of the database (stateFirstPacket) is replayed through ReadPacket + IsSSLRequestAllowed/Deny because readMessageType is not exported, the TLS hand-over after 'S' is outside the model; Gen/WireDescConsts.v: PGPROTO3_MAX_BODY is read from the pgproto3 source file the harness was built from (unexported constant), a description above 1 GiB is never generated"
        ],
        "assumptions": [
            "message/payload lengths below 2^32 and column counts below 2^16 where the protocol's own fields are that wide (premises of the theorems)",
            "len(data) < 2^63 for Go slices (premise of wire_lenenc_string_total / wire_text_row_total)"
        ]
    },
    "C03": {
        "properties": [
            "C03",
            "C03_header"
        ],
        "domains": [
            {
                "name": "c03",
                "run_vo": "Model/RunEnvelope.vo",
                "n_quick": 4,
                "n_thorough": 25,
                "model": True
            }
        ],
        "trusted": [
            "'Forgery' in the theorems is an explicit witness (a successful AEAD opening of a ciphertext never produced under that key/context); Themis' actual unforgeability is outside the theorems",
            "the stand-in's tag is a bijective-step hash: every single-bit change is detected, which the tamper enumeration relies on"
        ],
        "assumptions": [
            "data-key freshness (dek not among the client's keys) as an explicit premise where needed"
        ],
        "rule": "for sample protected values of each kind: bit flips (sampled; exhaustive for the first samples in the thorough tier), truncations, extensions, every header field x boundary values (0, small, exact+-1, 2^31, 2^63+-1, 2^64-k), envelope-id/type bytes, splices of two values, swapped/flipped search hashes; at every reveal entry point; each call replayed on the model; header rule (c03header.go, Properties/C03_header.v): every altered value that still carries the container tag and a known envelope id but whose declared length is not in (12, len] must be refused by DeserializeEncryptedData (12 itself allowed there), DecryptWithHandler, Process, translator.Decrypt, MatchDataSignature and must not be handed back unchanged by EncryptWithHandler; the length field runs over 0..14, len/2, len-2..len+2, len+12/13, 2^16, 2^31-1, 2^31, 2^32, 2^63-1..2^63+1, 2^64-13..2^64-1, also on an extended value"
    },
    "C01": {
        "properties": [
            "C01",
            "C01_old",
            "C01_chain"
        ],
        "domains": [
            {
                "name": "c01",
                "run_vo": "Model/RunEnvelope.vo",
                "n_quick": 60,
                "n_thorough": 1200,
                "model": True
            },
            {
                "name": "c01old",
                "run_vo": "Model/RunEnvelopeOld.vo",
                "n_quick": 45,
                "n_thorough": 1500,
                "model": True
            },
            {
                "name": "c01chain",
                "run_vo": "Model/RunFullChain.vo",
                "n_quick": 90,
                "n_thorough": 1800,
                "model": True
            }
        ],
        "trusted": [
            "modelled, not verified: the gRPC/HTTP framing around TranslatorService; key lookup by client id (C02/C06)",
            "legacy column path (C01_old): the detector's callback list is [wrapper; DecryptHandler(RegistryHandler)] as both proxy factories build it without a poison recogniser (C15) and without the masking processor (C11); ProcessAcraBlocks is modelled as a pure function, its aliased-buffer call is justified by C01_old_wrapper_never_grows + C01_old_aliasing_sound and replayed on the in-place model; ReEncryptHandler settings are the three booleans it reads",
            "full chain (C01_chain, domain c01chain): Model/FullChain.v composes the stage models in the order proxyFactory.New (PostgreSQL and MySQL) builds the ChainDataEncryptor and the column subscribers; the harness takes both lists from the factory-built proxies (hooks export_verif_s55.go) and asserts their composition for every schema (tokenization / search / masking stages present or not). Settings in scope are not tokenized: TokenEncryptor / TokenProcessor are in the driven chains but act as the identity (tokenized columns themselves are property C10); no poison callback storage; MySQL's own decoder / encoder subscribers and the SQL statement layer around the data encryptor are outside (C04/C19)"
        ],
        "assumptions": [
            "Correct C (Themis seal/wrap round-trip and length laws) as an explicit premise of every theorem",
            "plaintext length < 2^32-1024 (Themis' 32-bit length field)"
        ]
    },
}
